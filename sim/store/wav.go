package store

import (
	"encoding/binary"
	"fmt"
)

type WAVTruth struct {
	AudioFormat   int // 1 PCM, 3 IEEE float
	Channels      int
	SampleRate    int
	ByteRate      int
	BlockAlign    int
	BitsPerSample int
	Samples       []byte // the data chunk's contents
	DataOff       int
	RiffSize      int
	Padded        bool   // a pad byte follows an odd sized data chunk
	Software      string // ISFT of a trailing LIST/INFO chunk ("" = no such chunk)
	ListOff       int
}

// WriteWAV stores one canonical WAV file: the 44-byte header (RIFF, WAVE,
// 16-byte fmt chunk, data chunk header) written by hand, PCM 8/16/24/32 bit
// or 32 bit float samples, 1..6 channels, optionally followed by a LIST/INFO
// chunk.
func WriteWAV(g Gen) *File {
	f := &File{Format: "wav", Name: "f.wav", WAV: &WAVTruth{}}
	wt := f.WAV
	wt.AudioFormat = 1
	switch g.Intn(5) {
	case 0:
		wt.BitsPerSample = 8
	case 1:
		wt.BitsPerSample = 16
	case 2:
		wt.BitsPerSample = 24
	case 3:
		wt.BitsPerSample = 32
	default:
		wt.BitsPerSample, wt.AudioFormat = 32, 3
	}
	wt.Channels = []int{1, 1, 2, 2, 3, 6}[g.Intn(6)]
	wt.SampleRate = []int{8000, 11025, 22050, 44100, 48000, 96000, 1}[g.Intn(7)]
	wt.BlockAlign = wt.Channels * wt.BitsPerSample / 8
	wt.ByteRate = wt.SampleRate * wt.BlockAlign
	frames := 0
	switch g.Intn(8) {
	case 0:
		frames = 0
	case 1:
		frames = g.Range(3000, 9000)
	default:
		frames = g.Range(1, 400)
	}
	wt.Samples = make([]byte, frames*wt.BlockAlign)
	if g.Bool(3, 4) {
		newPrng(g).fill(wt.Samples)
	}
	if g.Bool(1, 4) {
		wt.Software = "Lavf" + pick(g, asciiStems)
		if len(wt.Software)%2 == 1 {
			wt.Software += "x"
		}
	}
	wt.Padded = len(wt.Samples)%2 == 1
	le16 := binary.LittleEndian.AppendUint16
	le32 := binary.LittleEndian.AppendUint32
	var list []byte
	if wt.Software != "" {
		body := append([]byte("INFOISFT"), le32(nil, uint32(len(wt.Software)))...)
		body = append(body, wt.Software...)
		list = append(append([]byte("LIST"), le32(nil, uint32(len(body)))...), body...)
	}
	dataLen := len(wt.Samples)
	padLen := dataLen % 2
	wt.RiffSize = 36 + dataLen + padLen + len(list)
	b := make([]byte, 0, 44+dataLen+padLen+len(list))
	b = append(b, "RIFF"...)
	b = le32(b, uint32(wt.RiffSize))
	b = append(b, "WAVE"...)
	b = append(b, "fmt "...)
	b = le32(b, 16)
	b = le16(b, uint16(wt.AudioFormat))
	b = le16(b, uint16(wt.Channels))
	b = le32(b, uint32(wt.SampleRate))
	b = le32(b, uint32(wt.ByteRate))
	b = le16(b, uint16(wt.BlockAlign))
	b = le16(b, uint16(wt.BitsPerSample))
	b = append(b, "data"...)
	b = le32(b, uint32(dataLen))
	wt.DataOff = len(b)
	b = append(b, wt.Samples...)
	if padLen == 1 {
		b = append(b, 0)
	}
	wt.ListOff = len(b)
	b = append(b, list...)
	f.Data = b
	f.region(0, 44, -1, KHeader, "")
	f.region(44, 44+dataLen, 0, KPayload, "")
	f.region(44+dataLen, len(b), -1, KMeta, "")
	f.Note = fmt.Sprintf("wav fmt %d %d ch %d Hz %d bit %d bytes", wt.AudioFormat, wt.Channels, wt.SampleRate, wt.BitsPerSample, dataLen)
	return f
}
