package harness

// hapi: generated decoder programs written against the public decode API
// (struct / array / framed / limited / range / seek / nested format / nested
// buffer), executed by the real decode package over a simulated disk with short
// reads and aborts at any disk call, against a reference interpreter that knows
// which bits each field reads (last sentence of C03; gap computation of C04 on
// trees whose ranges are known).
//
// The program is generated together with its expected tree: the generator is the
// reference interpreter (positions are plain integers, no I/O), so arguments can
// be aimed at boundaries (a seek to the current position, a nested format on the
// empty remainder, a frame that ends exactly at the end) and, now and then,
// beyond them (the decode must then fail at exactly that operation and keep
// exactly the partial tree built so far).

import (
	"fmt"
	"sort"
	"strings"

	"github.com/wader/fq/internal/simrt"
	"github.com/wader/fq/pkg/bitio"
	"github.com/wader/fq/pkg/decode"
	"github.com/wader/fq/pkg/scalar"
	"github.com/wader/fq/zzverif/sim/core"
)

type hapi struct{}

func init() { core.Register(&hapi{}) }

func (*hapi) Name() string { return "hapi" }

type apiNode struct {
	Op        string
	Name      string
	N, P      int64
	Kids      []*apiNode
	Alt       [][]*apiNode // formats of a probing group that are tried first and fail
	RootArray bool
	Buf       []byte

	// hapi_ops.go
	Form     int // how the reader is named: 0 width argument, 1 width and endian arguments, 2 width (and endian) in the name
	E        int // 0 the decoder's endian, 1 big, 2 little
	Try      int // 0 Field<reader>, 1 TryFieldScalar<reader>, 2 TryField<type>Fn over Try<reader>, 3 TryField<reader>
	Signed   bool
	Fails    bool // a Try reader or peek aimed past the end: the program catches the error
	Add      int64
	SymOn    bool
	SymUint  bool
	SymKey   uint64
	Validate int
	S        string
	U        uint64
	Len, Cnt int64
	Body     []bodySpec
}

// expected value
type mval struct {
	name                string
	compound, array     bool
	isRoot, gap, isUint bool
	synthetic           bool  // a derived value (FieldValueUint): no bits, not part of its parent's range
	start, length       int64 // in the coordinates of its buffer, as of creation
	buf                 int
	keepStart           bool // a nested buffer decoded as a format: placed at the parent's position
	fill                bool // a nested decode with gap filling over [fillStart, +fillLen)
	fillStart, fillLen  int64
	kids                []*mval
	u                   uint64
	removed             bool   // taken out of its array again by Value.Remove (one per program)
	val                 string // kind and value of a scalar leaf as the dump shows it (hapi_ops.go)
}

// one decoder view: a buffer, the offset of the view's origin in it, the
// position and the end of the view (both relative to the origin)
type mctx struct {
	buf   int
	base  int64
	pos   int64
	limit int64
	cur   *mval
	le    bool // the decoder's endian is little
	noSet bool // the view works on a copy of a decoder (frames): the endian is not set here
}

type apiGen struct {
	t       *simrt.Tape
	bufs    [][]byte
	gran    int64 // sizes are multiples of this many bits
	mayFail bool  // one operation of the program may be aimed past a boundary
	nodes   int
	names   int
	probes  map[string]int
	pastEnd bool // the position was moved past the end: the next operation adds an empty field there

	removed      bool // the program has its one Remove
	plainTryFail bool // the program has its one failing plain TryField<reader>
}

func (g *apiGen) name() string { g.names++; return fmt.Sprintf("f%d", g.names) }

func (g *apiGen) bitsAt(buf int, start, n int64) uint64 {
	var v uint64
	b := g.bufs[buf]
	for i := start; i < start+n; i++ {
		v = v<<1 | uint64(b[i/8]>>(7-uint(i%8))&1)
	}
	return v
}

func (g *apiGen) add(c *mctx, v *mval) {
	c.cur.kids = append(c.cur.kids, v)
}

// size draws a length for a read or frame with avail bits left: mostly inside,
// often exactly the remainder, rarely (once per program) past the end.
func (g *apiGen) size(avail int64, lo, hi int64) (n int64, fails bool) {
	if g.mayFail && g.t.Intn(14) == 0 {
		g.mayFail = false
		return avail + g.gran*int64(1+g.t.Intn(3)), true
	}
	if hi > avail {
		hi = avail
	}
	if hi < lo {
		return avail, false
	}
	switch g.t.Intn(5) {
	case 0:
		n = avail
		if n > hi {
			n = hi
		}
	default:
		n = lo + int64(g.t.Intn(int((hi-lo)/g.gran)+1))*g.gran
	}
	if n > hi {
		n = hi
	}
	return n, false
}

// seq generates and "executes" a sequence of operations in c.
func (g *apiGen) seq(c *mctx, depth int, maxOps int) ([]*apiNode, bool) {
	var out []*apiNode
	k := 1 + g.t.Intn(maxOps)
	for i := 0; i < k && g.nodes < 60; i++ {
		n, ok := g.op(c, depth)
		if n != nil {
			out = append(out, n)
		}
		if !ok {
			return out, false
		}
		if g.pastEnd {
			// even an empty field cannot lie outside the buffer: the decode fails here
			g.pastEnd = false
			g.probes["empty_field_past_end_attempt"]++
			return append(out, &apiNode{Op: "raw", Name: g.name(), N: 0}), false
		}
	}
	return out, true
}

func (g *apiGen) leaf(c *mctx) (*apiNode, bool) {
	avail := c.limit - c.pos
	if g.t.Intn(10) == 0 {
		// a derived value: no bits of its own
		if g.t.Intn(3) == 0 {
			nd := &apiNode{Op: "valuestr", Name: g.name(), S: []string{"", "a", "derived text", "\x00\xff"}[g.t.Intn(4)]}
			g.add(c, &mval{name: nd.Name, start: c.base + c.pos, length: 0, buf: c.buf, val: fmt.Sprintf("str=%x", nd.S), synthetic: true})
			g.probes["synthetic_value_str"]++
			return nd, true
		}
		nd := &apiNode{Op: "value", Name: g.name(), N: int64(g.t.Intn(1000))}
		g.add(c, &mval{name: nd.Name, start: c.base + c.pos, length: 0, buf: c.buf, isUint: true, u: uint64(nd.N), synthetic: true})
		g.probes["synthetic_value"]++
		return nd, true
	}
	if g.t.Intn(3) == 0 {
		// raw bits, zero length now and then
		lo := g.gran
		if g.t.Intn(6) == 0 {
			lo = 0
		}
		n, fails := g.size(avail, lo, 96)
		nd := &apiNode{Op: "raw", Name: g.name(), N: n}
		if fails {
			g.probes["op_past_end"]++
			return nd, false
		}
		g.add(c, &mval{name: nd.Name, start: c.base + c.pos, length: n, buf: c.buf})
		c.pos += n
		return nd, true
	}
	if avail < g.gran {
		if g.t.Intn(2) == 0 {
			// a Try reader that finds (almost) nothing: caught, no field
			return g.intField(c, true)
		}
		// nothing left for an integer: a zero-length raw field instead
		nd := &apiNode{Op: "raw", Name: g.name(), N: 0}
		g.add(c, &mval{name: nd.Name, start: c.base + c.pos, length: 0, buf: c.buf})
		return nd, true
	}
	switch k := g.t.Intn(16); {
	case k == 7 && g.gran != 8:
		return g.boolField(c)
	case k == 8 || k == 9:
		if nd := g.fltField(c); nd != nil {
			return nd, true
		}
	case k >= 10 && k <= 12:
		if nd, ok := g.strField(c); nd != nil {
			return nd, ok
		}
	}
	return g.intField(c, false)
}

// nested runs a nested format decode over [start, start+length) of c's view.
// It returns the nested root value (nil if the nested decode fails), and the
// extent of what it decoded.
func (g *apiGen) nested(c *mctx, nd *apiNode, start, length int64, fillGaps bool, depth int) (*mval, int64, bool) {
	// formats tried first that fail
	for a := g.t.Intn(4) - 1; a > 0; a-- {
		sc := &mctx{buf: c.buf, base: c.base + start, pos: 0, limit: length, cur: &mval{compound: true}}
		save := g.mayFail
		g.mayFail = false
		kids, _ := g.seq(sc, depth+1, 2)
		g.mayFail = save
		kids = append(kids, &apiNode{Op: "fatal"})
		nd.Alt = append(nd.Alt, kids)
		g.probes["probing_group"]++
	}
	nd.RootArray = g.t.Intn(3) == 0
	root := &mval{name: nd.Name, compound: true, array: nd.RootArray, start: c.base + start, buf: c.buf}
	sc := &mctx{buf: c.buf, base: c.base + start, pos: 0, limit: length, cur: root}
	var ok bool
	nd.Kids, ok = g.seq(sc, depth+1, 4)
	if !ok {
		return nil, 0, false
	}
	if fillGaps {
		// done when the tree is finished (the gaps of a nested decode depend on nothing outside it)
		root.fill, root.fillStart, root.fillLen = true, c.base+start, length
	}
	// the value's length as the decode returns it: the extent of everything below it
	ext := int64(0)
	var walk func(v *mval)
	walk = func(v *mval) {
		for _, k := range v.kids {
			if k.isRoot || k.removed {
				continue
			}
			if e := k.start + k.length - (c.base + start); e > ext {
				ext = e
			}
			walk(k)
		}
	}
	walk(root)
	root.length = ext
	if length == 0 {
		g.probes["nested_format_on_empty_range"]++
	}
	return root, ext, true
}

func (g *apiGen) op(c *mctx, depth int) (*apiNode, bool) {
	g.nodes++
	avail := c.limit - c.pos
	choice := g.t.Intn(29)
	if depth >= 4 || g.nodes > 45 {
		choice = 0
	}
	switch choice {
	case 20, 21:
		if c.noSet {
			return g.query(c), true
		}
		nd := &apiNode{Op: "endian", E: 1 + g.t.Intn(2)}
		if g.t.Intn(3) != 0 {
			nd.E = 2
		}
		c.le = nd.E == 2
		g.probes["endian_set"]++
		return nd, true
	case 22, 23:
		return g.query(c), true
	case 24:
		return g.peek(c), true
	case 25, 26:
		return g.structArray(c)
	case 27, 28:
		// an element of the array being filled is taken out again (not the last one):
		// the others close ranks, its bits belong to no field any more
		if !c.cur.array || g.removed || len(c.cur.kids) < 2 {
			choice = 0
			break
		}
		g.removed = true
		nd := &apiNode{Op: "remove", N: int64(g.t.Intn(len(c.cur.kids) - 1))}
		c.cur.kids[nd.N].removed = true
		g.probes["array_element_removed"]++
		if c.cur.kids[nd.N].compound {
			g.probes["array_element_removed_compound"]++
		}
		return nd, true
	}
	fn := func(nd *apiNode, sc *mctx) bool {
		var ok bool
		nd.Kids, ok = g.seq(sc, depth+1, 4)
		return ok
	}
	switch choice {
	default: // 0..5
		return g.leaf(c)
	case 6, 7:
		nd := &apiNode{Op: "struct", Name: g.name()}
		if choice == 7 {
			nd.Op = "array"
		}
		v := &mval{name: nd.Name, compound: true, array: choice == 7, start: c.base + c.pos, buf: c.buf}
		g.add(c, v)
		sc := *c
		sc.cur = v
		sc.noSet = false // a decoder of its own, the endian inherited
		if c.le {
			g.probes["endian_inherited_by_child"]++
		}
		ok := fn(nd, &sc)
		c.pos = sc.pos
		return nd, ok
	case 8, 9, 10:
		nd := &apiNode{Op: []string{"framed", "limited", "range"}[choice-8]}
		first := c.pos
		if nd.Op == "range" {
			first = int64(g.t.Intn(int(c.limit/g.gran)+1)) * g.gran
			nd.P = first
		}
		n, fails := g.size(c.limit-first, 0, 1<<20)
		nd.N = n
		if fails {
			g.probes["op_past_end"]++
			return nd, false
		}
		if first+n == c.limit {
			g.probes["frame_ends_at_end"]++
		}
		sc := &mctx{buf: c.buf, base: c.base, pos: first, limit: first + n, cur: c.cur, le: c.le, noSet: true}
		ok := fn(nd, sc)
		if !ok {
			return nd, false
		}
		switch nd.Op {
		case "framed":
			c.pos += n
		case "limited":
			c.pos = sc.pos
		}
		return nd, true
	case 11, 12:
		// decode somewhere else, come back
		nd := &apiNode{Op: "seekabs"}
		target := int64(g.t.Intn(int(c.limit/g.gran)+1)) * g.gran
		if g.t.Intn(3) == 0 {
			target = c.pos // a stored offset that points at where the decoder is
			g.probes["seek_to_current_position"]++
		}
		nd.P = target
		if choice == 12 {
			nd.Op = "seekrel"
			nd.P = target - c.pos
		}
		sc := *c
		sc.pos = target
		ok := fn(nd, &sc)
		c.le = sc.le // the functions of a seek run on the decoder itself
		return nd, ok
	case 13:
		// skip forward
		n, fails := g.size(avail, 0, 64)
		if fails {
			// seeking past the end is allowed; decoding anything there is not
			g.pastEnd = true
		}
		c.pos += n
		return &apiNode{Op: "skip", N: n}, true
	case 14:
		w := g.gran * int64(1+g.t.Intn(3))
		if w > 64 {
			w = 64
		}
		if c.le && w > 8 && w%8 != 0 {
			w = 8
		}
		nd := &apiNode{Op: "loopu", Name: g.name(), N: w}
		v := &mval{name: nd.Name, compound: true, array: true, start: c.base + c.pos, buf: c.buf}
		g.add(c, v)
		for c.limit-c.pos >= w {
			v.kids = append(v.kids, &mval{name: "e", start: c.base + c.pos, length: w, buf: c.buf, isUint: true, u: g.uval(c.buf, c.base+c.pos, w, c.le)})
			c.pos += w
		}
		if len(v.kids) == 0 {
			g.probes["loop_of_zero_elements"]++
		}
		return nd, true
	case 15:
		nd := &apiNode{Op: "format", Name: g.name()}
		v, ext, ok := g.nested(c, nd, c.pos, avail, false, depth)
		if !ok {
			return nd, false
		}
		g.add(c, v)
		c.pos += ext
		return nd, true
	case 16:
		nd := &apiNode{Op: "formatlen", Name: g.name()}
		n, fails := g.size(avail, g.gran, 1<<20)
		nd.N = n
		if fails || n < 1 {
			if n < 1 {
				// no room: a plain leaf instead
				g.nodes--
				return g.leaf(c)
			}
			g.probes["op_past_end"]++
			return nd, false
		}
		v, _, ok := g.nested(c, nd, c.pos, n, true, depth)
		if !ok {
			return nd, false
		}
		v.length = n
		g.add(c, v)
		c.pos += n
		return nd, true
	case 17:
		nd := &apiNode{Op: "formatrange", Name: g.name()}
		first := int64(g.t.Intn(int(c.limit/g.gran)+1)) * g.gran
		n, fails := g.size(c.limit-first, g.gran, 1<<20)
		nd.P, nd.N = first, n
		if n < 1 {
			g.nodes--
			return g.leaf(c)
		}
		if fails {
			g.probes["op_past_end"]++
			return nd, false
		}
		v, _, ok := g.nested(c, nd, first, n, true, depth)
		if !ok {
			return nd, false
		}
		v.length = n
		g.add(c, v)
		return nd, true
	case 18:
		// a nested buffer (what a decompressor returns) decoded as a format or by a function
		buf := make([]byte, 1+g.t.Intn(12))
		for i := range buf {
			buf[i] = byte(g.t.Intn(256))
		}
		id := len(g.bufs)
		g.bufs = append(g.bufs, buf)
		total := int64(len(buf)) * 8
		if g.t.Intn(2) == 0 {
			nd := &apiNode{Op: "formatbuf", Name: g.name(), Buf: buf}
			sc := &mctx{buf: id, base: 0, pos: 0, limit: total, cur: c.cur}
			v, _, ok := g.nested(sc, nd, 0, total, true, depth)
			if !ok {
				return nd, false
			}
			v.isRoot, v.keepStart = true, true
			v.start, v.length = c.base+c.pos, total
			g.add(c, v)
			g.probes["nested_buffer"]++
			return nd, true
		}
		nd := &apiNode{Op: "structbuf", Name: g.name(), Buf: buf}
		v := &mval{name: nd.Name, compound: true, isRoot: true, start: c.base + c.pos, buf: id}
		g.add(c, v)
		sc := &mctx{buf: id, base: 0, pos: 0, limit: total, cur: v, le: c.le}
		ok := fn(nd, sc)
		g.probes["nested_buffer"]++
		return nd, ok
	case 19:
		if !g.mayFail || g.t.Intn(3) != 0 {
			g.nodes--
			return g.leaf(c)
		}
		g.mayFail = false
		if !c.cur.array && len(c.cur.kids) > 0 && g.t.Intn(2) == 0 {
			// a second field with a name that is taken
			g.probes["duplicate_name_attempt"]++
			return &apiNode{Op: "raw", Name: c.cur.kids[g.t.Intn(len(c.cur.kids))].name, N: 0}, false
		}
		g.probes["fatal"]++
		return &apiNode{Op: "fatal"}, false
	}
}

// fillGaps appends gap leaves to v for the bits of [start, start+length) of buf
// that no leaf below v (same buffer root) covers. tolerant drops interior gaps of
// one bit (known finding: ranges.Gaps swallows them).
func fillGaps(v *mval, buf int, start, length int64, tolerant bool) {
	type rng struct{ s, e int64 }
	var leaves []rng
	var walk func(x *mval)
	walk = func(x *mval) {
		for _, k := range x.kids {
			if k.isRoot {
				continue
			}
			if k.compound {
				walk(k)
				continue
			}
			leaves = append(leaves, rng{k.start, k.start + k.length})
		}
	}
	walk(v)
	cover := make([]bool, length)
	for _, l := range leaves {
		for i := l.s; i < l.e; i++ {
			if i >= start && i < start+length {
				cover[i-start] = true
			}
		}
	}
	if tolerant {
		var ls [][2]int64
		for _, l := range leaves {
			ls = append(ls, [2]int64{l.s - start, l.e - start})
		}
		for i, b := range slackSwallowed(ls, length) {
			if b {
				cover[i] = true
			}
		}
	}
	n := 0
	for i := int64(0); i < length; {
		if cover[i] {
			i++
			continue
		}
		j := i
		for j < length && !cover[j] {
			j++
		}
		v.kids = append(v.kids, &mval{name: fmt.Sprintf("gap%d", n), gap: true, start: start + i, length: j - i, buf: buf})
		n++
		i = j
	}
}

// finish applies what the end of a decode does to every compound: a struct's
// fields are ordered by start (stable), a compound's range spans its children of
// the same buffer, an empty compound keeps the position it was created at.
func (v *mval) finish(tolerant bool) {
	if !v.compound {
		return
	}
	for _, k := range v.kids {
		k.finish(tolerant)
	}
	if v.fill {
		fillGaps(v, v.buf, v.fillStart, v.fillLen, tolerant)
		v.fill = false
	}
	first := true
	own := v.start
	defer func() {
		if v.keepStart {
			v.start = own
		}
	}()
	for _, k := range v.kids {
		if k.isRoot || k.synthetic {
			continue
		}
		if first {
			v.start, v.length = k.start, k.length
			first = false
			continue
		}
		s, e := v.start, v.start+v.length
		if k.start < s {
			s = k.start
		}
		if k.start+k.length > e {
			e = k.start + k.length
		}
		v.start, v.length = s, e-s
	}
	if !v.array {
		sort.SliceStable(v.kids, func(i, j int) bool { return v.kids[i].start < v.kids[j].start })
	}
}

// strip takes the removed elements out (unless keep: the tree as it was before the Remove).
func (v *mval) strip(keep bool) *mval {
	kids := v.kids[:0:0]
	for _, k := range v.kids {
		if k.removed && !keep {
			continue
		}
		kids = append(kids, k.strip(keep))
	}
	v.kids = kids
	return v
}

func (v *mval) clone() *mval {
	c := *v
	c.kids = nil
	for _, k := range v.kids {
		c.kids = append(c.kids, k.clone())
	}
	return &c
}

func (v *mval) dump(path string, top bool, out *[]string) {
	kind := "raw"
	switch {
	case v.compound && v.array:
		kind = "array"
	case v.compound:
		kind = "struct"
	case v.gap:
		kind = "gap"
	case v.val != "":
		kind = v.val
	case v.isUint:
		kind = fmt.Sprintf("u=%d", v.u)
	}
	if v.synthetic {
		kind += " derived"
	}
	rng := fmt.Sprintf("%d+%d", v.start, v.length)
	if v.isRoot && !top {
		rng = "(own buffer)" // how a nested root is placed in its parent is not part of the statement
	}
	*out = append(*out, fmt.Sprintf("%s %s %s", path, kind, rng))
	// where a struct places a nested buffer among its fields is not part of the
	// statement: nested roots are listed after the fields of the struct's own buffer
	var roots []*mval
	for i, k := range v.kids {
		if v.array {
			k.dump(fmt.Sprintf("%s[%d]", path, i), false, out)
		} else if k.isRoot {
			roots = append(roots, k)
		} else {
			k.dump(path+"."+k.name, false, out)
		}
	}
	sort.Slice(roots, func(i, j int) bool { return roots[i].name < roots[j].name })
	for _, k := range roots {
		k.dump(path+"."+k.name, false, out)
	}
}

func apiDumpReal(v *decode.Value, path string, top bool, out *[]string) {
	kind := "raw"
	switch vv := v.V.(type) {
	case *decode.Compound:
		kind = "struct"
		if vv.IsArray {
			kind = "array"
		}
	case *scalar.Uint:
		kind = fmt.Sprintf("u=%d", vv.Actual) + symKind(vv.Sym, vv.Description)
	case *scalar.Sint:
		kind = fmt.Sprintf("s=%d", vv.Actual) + symKind(vv.Sym, vv.Description)
	case *scalar.Bool:
		kind = fmt.Sprintf("bool=%v", vv.Actual) + symKind(vv.Sym, vv.Description)
	case *scalar.Flt:
		kind = fltKind(vv.Actual) + symKind(vv.Sym, vv.Description)
	case *scalar.Str:
		kind = fmt.Sprintf("str=%x", vv.Actual) + symKind(vv.Sym, vv.Description)
	default:
		if isGap(v) {
			kind = "gap"
		}
	}
	if isSynthetic(v) {
		kind += " derived"
	}
	rng := fmt.Sprintf("%d+%d", v.Range.Start, v.Range.Len)
	if v.IsRoot && !top {
		rng = "(own buffer)"
	}
	*out = append(*out, fmt.Sprintf("%s %s %s", path, kind, rng))
	if c, ok := v.V.(*decode.Compound); ok {
		var roots []*decode.Value
		for i, k := range c.Children {
			if c.IsArray {
				apiDumpReal(k, fmt.Sprintf("%s[%d]", path, i), false, out)
			} else if k.IsRoot {
				roots = append(roots, k)
			} else {
				apiDumpReal(k, path+"."+k.Name, false, out)
			}
		}
		sort.Slice(roots, func(i, j int) bool { return roots[i].Name < roots[j].Name })
		for _, k := range roots {
			apiDumpReal(k, path+"."+k.Name, false, out)
		}
	}
}

func (n *apiNode) String() string {
	if s, ok := n.opsString(); ok {
		return s
	}
	var sb strings.Builder
	sb.WriteString(n.Op)
	if n.Name != "" {
		sb.WriteString(" " + n.Name)
	}
	switch n.Op {
	case "u", "raw", "framed", "limited", "skip", "loopu", "formatlen", "value", "remove":
		fmt.Fprintf(&sb, " %d", n.N)
	case "range", "formatrange":
		fmt.Fprintf(&sb, " %d+%d", n.P, n.N)
	case "seekabs", "seekrel":
		fmt.Fprintf(&sb, " %d", n.P)
	case "formatbuf", "structbuf":
		fmt.Fprintf(&sb, " %x", n.Buf)
	}
	if n.RootArray {
		sb.WriteString(" rootarray")
	}
	for _, a := range n.Alt {
		sb.WriteString(" alt" + apiProgString(a))
	}
	if len(n.Kids) > 0 || n.Op == "format" || n.Op == "formatlen" || n.Op == "formatrange" || n.Op == "formatbuf" {
		sb.WriteString(apiProgString(n.Kids))
	}
	return sb.String()
}

func apiProgString(ns []*apiNode) string {
	var parts []string
	for _, n := range ns {
		parts = append(parts, n.String())
	}
	return "{" + strings.Join(parts, "; ") + "}"
}

// ---- the program run by the real decode package ---------------------------

func apiGroup(n *apiNode) *decode.Group {
	var fs []*decode.Format
	for i, alt := range n.Alt {
		alt := alt
		fs = append(fs, &decode.Format{Name: fmt.Sprintf("tried_first_%d", i), DecodeFn: func(d *decode.D) any { apiExec(d, alt); return nil }})
	}
	fs = append(fs, &decode.Format{Name: "generated", RootArray: n.RootArray, DecodeFn: func(d *decode.D) any { apiExec(d, n.Kids); return nil }})
	return &decode.Group{Name: "generated", Formats: fs}
}

func apiExec(d *decode.D, ns []*apiNode) {
	for _, n := range ns {
		n := n
		fn := func(d *decode.D) { apiExec(d, n.Kids) }
		switch n.Op {
		case "u":
			d.FieldU(n.Name, int(n.N))
		case "raw":
			d.FieldRawLen(n.Name, n.N)
		case "value":
			d.FieldValueUint(n.Name, uint64(n.N))
		case "struct":
			d.FieldStruct(n.Name, fn)
		case "array":
			d.FieldArray(n.Name, fn)
		case "framed":
			d.FramedFn(n.N, fn)
		case "limited":
			d.LimitedFn(n.N, fn)
		case "range":
			d.RangeFn(n.P, n.N, fn)
		case "seekabs":
			d.SeekAbs(n.P, fn)
		case "seekrel":
			d.SeekRel(n.P, fn)
		case "skip":
			d.SeekRel(n.N)
		case "loopu":
			d.FieldArray(n.Name, func(d *decode.D) {
				for d.BitsLeft() >= n.N {
					d.FieldU("e", int(n.N))
				}
			})
		case "format":
			d.FieldFormat(n.Name, apiGroup(n), nil)
		case "formatlen":
			d.FieldFormatLen(n.Name, n.N, apiGroup(n), nil)
		case "formatrange":
			d.FieldFormatRange(n.Name, n.P, n.N, apiGroup(n), nil)
		case "formatbuf":
			d.FieldFormatBitBuf(n.Name, bitio.NewBitReader(n.Buf, -1), apiGroup(n), nil)
		case "structbuf":
			d.FieldStructRootBitBufFn(n.Name, bitio.NewBitReader(n.Buf, -1), fn)
		case "remove":
			cs := d.Value.V.(*decode.Compound).Children
			if int(n.N) >= len(cs)-1 {
				apiMismatch("the array %s has %d elements, the program is about to remove element %d of at least %d", d.Value.Name, len(cs), n.N, n.N+2)
			} else if err := cs[n.N].Remove(); err != nil {
				d.Fatalf("Remove: %v", err)
			}
		case "fatal":
			d.Fatalf("generated failure")
		default:
			if !apiExecOp(d, n) {
				panic("hapi: unknown op " + n.Op)
			}
		}
	}
}

func (*hapi) Run(rc *core.RunCtx) *core.RunResult {
	res := core.NewResult()
	t := rc.T
	data := make([]byte, 1+t.Intn(40))
	texty := t.Intn(3) == 0 // mostly printable bytes with terminators: text readers find something to read
	for i := range data {
		data[i] = byte(t.Intn(256))
		if texty {
			switch k := t.Intn(10); {
			case k < 6:
				data[i] = byte(0x20 + int(data[i])%0x5f)
			case k < 8:
				data[i] = 0
			}
		}
	}
	g := &apiGen{t: t, bufs: [][]byte{data}, gran: []int64{1, 1, 8, 8, 4}[t.Intn(5)], mayFail: t.Intn(3) == 0, probes: res.Probes}
	top := &apiNode{Op: "top", RootArray: t.Intn(4) == 0}
	root := &mval{compound: true, array: top.RootArray}
	total := int64(len(data)) * 8
	c := &mctx{buf: 0, base: 0, pos: 0, limit: total, cur: root}
	var genOK bool
	top.Kids, genOK = g.seq(c, 0, 6)
	prog := apiProgString(top.Kids)
	if top.RootArray {
		prog = "rootarray" + prog
	}
	what := fmt.Sprintf("program %s over %d bytes %x", prog, len(data), data)
	root.fill, root.fillStart, root.fillLen = true, 0, total
	strict := root.clone().strip(false)
	strict.finish(false)
	tolerant := root.clone().strip(false)
	tolerant.finish(true)
	var wantStrict, wantTol []string
	strict.dump("", true, &wantStrict)
	tolerant.dump("", true, &wantTol)
	want := map[string]bool{}
	for _, l := range wantTol {
		want[l] = true
	}
	if g.removed {
		// a partial tree may be from before the Remove: the numbering of then
		before := root.clone().strip(true)
		before.finish(true)
		var ls []string
		before.dump("", true, &ls)
		for _, l := range ls {
			want[l] = true
		}
	}
	group := apiGroup(top)
	res.Sample = map[string]any{"program": prog, "bytes": fmt.Sprintf("%x", data), "fails_by_design": !genOK}
	res.Fingerprint = fnv64(fnv64(0, []byte(prog)), data)
	res.Nontrivial = true
	if !genOK {
		res.Probes["programs_failing_by_design"]++
	}

	compare := func(out *decOutcome, descr string) bool {
		var got []string
		apiDumpReal(out.v, "", true, &got)
		same := func(a, b []string) bool {
			if len(a) != len(b) {
				return false
			}
			for i := range a {
				if a[i] != b[i] {
					return false
				}
			}
			return true
		}
		if same(got, wantStrict) {
			return true
		}
		first := ""
		for i := 0; i < len(got) || i < len(wantStrict); i++ {
			a, b := "(nothing)", "(nothing)"
			if i < len(got) {
				a = got[i]
			}
			if i < len(wantStrict) {
				b = wantStrict[i]
			}
			if a != b {
				first = fmt.Sprintf("value %d: decoded %q, the program reads %q", i, a, b)
				break
			}
		}
		if same(got, wantTol) {
			res.Violate("C04", "bit-not-covered", "1-bit hole between leaf ranges", fmt.Sprintf("%s%s: a hole of one bit between two fields is neither a field nor a gap; %s", what, descr, first))
			return false
		}
		prop, oracle := "C03", "differs-from-reference"
		if strings.Contains(first, " gap ") {
			prop, oracle = "C04", "gaps-differ-from-reference"
		}
		res.Violate(prop, oracle, "generated-decoder", fmt.Sprintf("%s%s: %s\n  decoded:   %s\n  reference: %s", what, descr, first, strings.Join(got, " | "), strings.Join(wantStrict, " | ")))
		return false
	}

	// what the program itself saw: a query answered differently from the reference's
	// arithmetic, a Try reader that did not return the error it has to
	observed := func(out *decOutcome, descr string) bool {
		res.Probes["try_failure_moved_position"] += apiObs.tryMoved
		res.Probes["try_failure_kept_position"] += apiObs.tryKept
		if out.panicV != "" && strings.Contains(out.panicV, "nil pointer") && strings.Contains(out.stack, "decode.(*D).TryField") && !strings.Contains(out.stack, "decode.(*D).TryFieldScalar") {
			res.Violate("C03", "try-reader-panics-instead-of-error", "TryField<reader>:nil-dereference", fmt.Sprintf("%s%s: a TryField<reader> method whose read failed did not return the error (doc/dev.md: a Try function returns the error instead of panicking) but dereferenced the nil scalar its TryFieldScalar<reader> returned: %s", what, descr, firstN(out.panicV, 200)))
			return false
		}
		if len(apiObs.mismatch) > 0 {
			res.Violate("C03", "differs-from-reference", "generated-decoder-query", fmt.Sprintf("%s%s: %s", what, descr, strings.Join(apiObs.mismatch, "; ")))
			return false
		}
		return true
	}
	// (1) short reads only: the tree is the reference tree, the outcome is the reference outcome
	for rep := 0; rep < 2; rep++ {
		apiObs = apiObsT{}
		out, _ := decodeOnceShort(t, data, group, 0, 0, 1+t.Intn(5))
		res.Steps += out.calls
		res.Extra["decodes"]++
		if !observed(out, "") {
			return res
		}
		checkOutcome(res, out, data, what, false, "generated", false)
		onlyHole := true
		for _, v := range res.Violations {
			if v.Key != "1-bit hole between leaf ranges" {
				onlyHole = false
			}
		}
		if !onlyHole {
			return res
		}
		if out.v == nil {
			res.Violate("C03", "no-tree", "generated-decoder", what+": no tree, error "+errStr(out.err))
			return res
		}
		if genOK != (out.err == nil) {
			res.Violate("C03", "outcome-differs-from-reference", "generated-decoder", fmt.Sprintf("%s: the program %s, the decode returned error %q", what, map[bool]string{true: "reads inside its buffers only", false: "fails by design"}[genOK], errStr(out.err)))
			return res
		}
		if !compare(out, "") || len(res.Violations) > 0 {
			return res
		}
		res.Extra["trees_equal_reference"]++
	}
	// (2) an abort at a disk call of the decode: whatever tree comes back holds only
	// values of the reference tree (same path, same range, same bits)
	ref, _ := decodeOnceShort(t, data, group, 0, 0, 0)
	for k := 0; k < 6 && ref.calls > 0; k++ {
		pk := 1 + t.Intn(4)
		at := t.Intn(ref.calls)
		apiObs = apiObsT{}
		out, _ := decodeOnceShort(t, data, group, pk, at, 0)
		res.Steps += out.calls
		res.Faults[[]string{"", "abort_eio_transient", "abort_eio_persistent", "abort_eof", "abort_cancel"}[pk]]++
		descr := fmt.Sprintf(", %s at disk call %d of %d", []string{"", "transient EIO", "persistent EIO", "early EOF", "cancel"}[pk], at, ref.calls)
		if !observed(out, descr) {
			return res
		}
		checkOutcome(res, out, data, what+descr, pk != 4, "generated", false)
		if len(res.Violations) > 0 {
			return res
		}
		if out.v == nil {
			continue
		}
		if out.err == nil && genOK {
			// the fault did not reach the decode (or was absorbed): the full tree
			if !compare(out, descr) {
				return res
			}
			continue
		}
		res.Probes["partial_tree_after_abort"]++
		var got []string
		apiDumpReal(out.v, "", true, &got)
		for _, l := range got {
			if strings.Contains(l, " gap ") || strings.Contains(l, " struct ") || strings.Contains(l, " array ") {
				continue // compounds and gaps of a partial tree span what was decoded so far
			}
			if !want[l] {
				res.Violate("C03", "partial-tree-value-not-in-reference", "generated-decoder", fmt.Sprintf("%s%s: the partial tree holds %q, which the program never reads\n  decoded:   %s\n  reference: %s", what, descr, l, strings.Join(got, " | "), strings.Join(wantStrict, " | ")))
				return res
			}
		}
	}
	return res
}

// decodeOnceShort is decodeOnce with reads cut to at most 1+(call mod short) bytes.
func decodeOnceShort(t *simrt.Tape, data []byte, group *decode.Group, planKind, planAt, short int) (*decOutcome, *decDisk) {
	decShort = short
	defer func() { decShort = 0 }()
	return decodeOnce(t, data, group, false, planKind, planAt, false)
}
