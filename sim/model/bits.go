// Package model holds the reference models used as oracles. Nothing in here
// shares code with fq.
package model

// Bits is a bit string, one byte (0 or 1) per bit, most significant bit first.
type Bits []byte

// FromBytes takes the first nBits bits of b.
func FromBytes(b []byte, nBits int64) Bits {
	out := make(Bits, nBits)
	for i := int64(0); i < nBits; i++ {
		out[i] = (b[i/8] >> (7 - uint(i%8))) & 1
	}
	return out
}

// Zeros is n zero bits.
func Zeros(n int64) Bits { return make(Bits, n) }

// Slice returns bits [a,b) clamped to the string.
func (s Bits) Slice(a, b int64) Bits {
	if a < 0 {
		a = 0
	}
	if b > int64(len(s)) {
		b = int64(len(s))
	}
	if a >= b {
		return Bits{}
	}
	return s[a:b]
}

// Concat concatenates bit strings.
func Concat(parts ...Bits) Bits {
	var out Bits
	for _, p := range parts {
		out = append(out, p...)
	}
	return out
}

// PadToByte appends zero bits up to a byte boundary.
func (s Bits) PadToByte() Bits {
	out := append(Bits{}, s...)
	for len(out)%8 != 0 {
		out = append(out, 0)
	}
	return out
}

// Bytes packs the bits MSB first, zero padding the last byte.
func (s Bits) Bytes() []byte {
	out := make([]byte, (len(s)+7)/8)
	for i, b := range s {
		if b != 0 {
			out[i/8] |= 1 << (7 - uint(i%8))
		}
	}
	return out
}

// EqualPacked reports whether the first n bits of packed p equal s[off:off+n].
func (s Bits) EqualPacked(off int64, p []byte, n int64) bool {
	if off < 0 || off+n > int64(len(s)) || int64(len(p))*8 < n {
		return false
	}
	for i := int64(0); i < n; i++ {
		if (p[i/8]>>(7-uint(i%8)))&1 != s[off+i] {
			return false
		}
	}
	return true
}

// String renders up to 64 bits.
func (s Bits) String() string {
	n := len(s)
	if n > 64 {
		n = 64
	}
	b := make([]byte, n)
	for i := 0; i < n; i++ {
		b[i] = '0' + s[i]
	}
	if len(s) > 64 {
		return string(b) + "..."
	}
	return string(b)
}
