package simrt

import (
	"reflect"
	"sync"
	"unsafe"
)

// Simulated channel operations. Instrumented code calls these instead of the
// native select / send / receive so that (a) the choice among ready cases and
// the order of rendezvous come from the tape and (b) a task that would block
// parks with the scheduler instead of in the Go runtime.
//
// Closed and buffered channels are operated for real (non-blocking) so their
// happens-before edges are the real ones. An unbuffered rendezvous between
// two simulated tasks is matched here; a real mutex per channel is touched by
// both sides so that the race detector sees the same edges a native
// rendezvous would give it.

type selCase interface {
	key() uintptr
	send() bool
	realReady() int // 0 no, 1 yes, 2 yes and already consumed
	realCommit()
	transferTo(o selCase) bool // this is a send case: hand value to recv case o
	setClosed()
}

// RecvCase is one receive case of a select.
type RecvCase[T any] struct {
	C        <-chan T
	V        T
	OK       bool
	consumed bool
}

// SendCase is one send case of a select.
type SendCase[T any] struct {
	C chan<- T
	V T
}

func RecvOf[T any](c <-chan T) *RecvCase[T] { return &RecvCase[T]{C: c} }
func SendOf[T any](c chan<- T, v T) *SendCase[T] {
	return &SendCase[T]{C: c, V: v}
}

//go:norace
func (r *RecvCase[T]) key() uintptr              { return *(*uintptr)(unsafe.Pointer(&r.C)) }
func (r *RecvCase[T]) send() bool                { return false }
func (r *RecvCase[T]) setClosed()                {}
func (r *RecvCase[T]) transferTo(o selCase) bool { return false }

func (r *RecvCase[T]) realReady() int {
	if r.C == nil {
		return 0
	}
	if len(r.C) > 0 {
		return 1
	}
	// empty: closed, or (only with natively blocked senders) a value
	select {
	case v, ok := <-r.C:
		r.V, r.OK, r.consumed = v, ok, true
		return 2
	default:
		return 0
	}
}

func (r *RecvCase[T]) realCommit() {
	if r.consumed {
		return
	}
	select {
	case v, ok := <-r.C:
		r.V, r.OK = v, ok
	default:
		infra("simrt: buffered receive vanished")
	}
}

//go:norace
func (c *SendCase[T]) key() uintptr { return *(*uintptr)(unsafe.Pointer(&c.C)) }
func (c *SendCase[T]) send() bool   { return true }
func (c *SendCase[T]) setClosed()   {}

func (c *SendCase[T]) realReady() int {
	if c.C == nil {
		return 0
	}
	if cap(c.C) > 0 && len(c.C) < cap(c.C) {
		return 1
	}
	return 0
}

func (c *SendCase[T]) realCommit() {
	select {
	case c.C <- c.V:
	default:
		infra("simrt: buffered send would block")
	}
}

func (c *SendCase[T]) transferTo(o selCase) bool {
	r, ok := o.(*RecvCase[T])
	if !ok {
		return false
	}
	r.V, r.OK, r.consumed = c.V, true, true
	return true
}

// per-channel real sync object, for happens-before edges of simulated
// rendezvous. The slot is a pure function of the channel address: two channels
// may share a mutex (edges are then over-approximated), an edge is never lost.
const maxChanSync = 256

var chanSyncMu [maxChanSync]sync.Mutex

//go:norace
func chanSyncSlot(k uintptr) int {
	return int((k>>4)*2654435761>>7) & (maxChanSync - 1)
}

func touch(k uintptr) {
	i := chanSyncSlot(k)
	chanSyncMu[i].Lock()
	//lint:ignore SA2001 the critical section is the happens-before edge
	chanSyncMu[i].Unlock()
}

//go:norace
func resetWaits() {
	for i := range waits {
		waits[i] = nil
	}
}

type selWait struct {
	cases  []selCase
	result int
	done   bool
}

//go:norace
func (w *selWait) get() (bool, int) { return w.done, w.result }

//go:norace
func (w *selWait) caseAt(i int) selCase { return w.cases[i] }

var waits [maxTasks]*selWait

//go:norace
func setWait(i int, w *selWait) { waits[i] = w }

//go:norace
func getWait(i int) *selWait { return waits[i] }

// findPartner returns a blocked task (and its case index) that can rendezvous
// with case c of the calling task.
//
//go:norace
func (s *Sim) findPartner(self int, c selCase) (int, int) {
	k := c.key()
	if k == 0 {
		return -1, -1
	}
	for i := 0; i < s.ntasks; i++ {
		if i == self || s.tasks[i].state != tsBlocked {
			continue
		}
		w := waits[i]
		if w == nil || w.done {
			continue
		}
		for j, oc := range w.cases {
			if oc.key() == k && oc.send() != c.send() {
				return i, j
			}
		}
	}
	return -1, -1
}

//go:norace
func (s *Sim) wakeMatched(i int, w *selWait, idx int) {
	w.result = idx
	w.done = true
	s.tasks[i].state = tsRunnable
	s.epoch++
}

// Select performs a select over cases. hasDefault makes it non-blocking, in
// which case -1 means the default clause.
func Select(site int, hasDefault bool, cases ...selCase) int {
	s := Cur()
	if s == nil || !Active() || s.killed() || CurTask() < 0 {
		return nativeSelect(hasDefault, cases)
	}
	self := CurTask()
	OpYield(site)
	for {
		// which cases can complete now
		var ready [16]int
		var kind [16]int // 1 real, 2 real consumed, 3 partner
		n := 0
		forced := -1
		for i, c := range cases {
			if n >= len(ready) {
				break
			}
			if r := c.realReady(); r != 0 {
				ready[n], kind[n] = i, r
				if r == 2 && forced < 0 {
					forced = n
				}
				n++
				continue
			}
			if p, _ := s.findPartner(self, c); p >= 0 {
				ready[n], kind[n] = i, 3
				n++
			}
		}
		if n > 0 {
			pickN := 0
			if forced >= 0 {
				pickN = forced
			} else if n > 1 {
				pickN = s.T.Intn(n)
			}
			idx := ready[pickN]
			c := cases[idx]
			switch kind[pickN] {
			case 1, 2:
				c.realCommit()
			case 3:
				p, pj := s.findPartner(self, c)
				touch(c.key())
				w := getWait(p)
				oc := w.caseAt(pj)
				var ok bool
				if c.send() {
					ok = c.transferTo(oc)
				} else {
					ok = oc.transferTo(c)
				}
				if !ok {
					infra("simrt: rendezvous between cases of different element types")
				}
				touch(c.key())
				s.wakeMatched(p, w, pj)
			}
			Note('c', site)
			return idx
		}
		if hasDefault {
			return -1
		}
		w := &selWait{cases: cases, result: -1}
		for _, c := range cases {
			if k := c.key(); k != 0 {
				touch(k)
			}
		}
		setWait(self, w)
		Block(site)
		setWait(self, nil)
		if done, r := w.get(); done {
			touch(cases[r].key())
			return r
		}
	}
}

func nativeSelect(hasDefault bool, cases []selCase) int {
	rc := make([]reflect.SelectCase, 0, len(cases)+1)
	for _, c := range cases {
		rc = append(rc, nativeCase(c))
	}
	if hasDefault {
		rc = append(rc, reflect.SelectCase{Dir: reflect.SelectDefault})
	}
	i, v, ok := reflect.Select(rc)
	if hasDefault && i == len(cases) {
		return -1
	}
	nativeStore(cases[i], v, ok)
	return i
}

func nativeCase(c selCase) reflect.SelectCase {
	v := reflect.ValueOf(c).Elem()
	if c.send() {
		return reflect.SelectCase{Dir: reflect.SelectSend, Chan: chanBidi(v.Field(0)), Send: v.Field(1)}
	}
	return reflect.SelectCase{Dir: reflect.SelectRecv, Chan: chanBidi(v.Field(0))}
}

func chanBidi(v reflect.Value) reflect.Value {
	if v.IsNil() {
		return reflect.Value{}
	}
	return v
}

func nativeStore(c selCase, v reflect.Value, ok bool) {
	if c.send() {
		return
	}
	e := reflect.ValueOf(c).Elem()
	if v.IsValid() {
		e.Field(1).Set(v)
	}
	e.Field(2).SetBool(ok)
}

// Recv is `<-c`.
func Recv[T any](site int, c <-chan T) T {
	rc := RecvOf(c)
	Select(site, false, rc)
	return rc.V
}

// Recv2 is `v, ok := <-c`.
func Recv2[T any](site int, c <-chan T) (T, bool) {
	rc := RecvOf(c)
	Select(site, false, rc)
	return rc.V, rc.OK
}

// Send is `c <- v`. Sending on a closed channel panics like the native send.
func Send[T any](site int, c chan<- T, v T) {
	Select(site, false, SendOf(c, v))
}

type tryLocker interface{ TryLock() bool }
type tryRLocker interface{ TryRLock() bool }

// Lock is `p.Lock()` as a try-then-park loop. p is the address of the
// receiver expression.
func Lock[T any](site int, p *T) {
	var tl tryLocker
	if x, ok := any(p).(tryLocker); ok {
		tl = x
	} else if x, ok := any(*p).(tryLocker); ok {
		tl = x
	}
	if tl == nil || !Active() || CurTask() < 0 {
		if x, ok := any(p).(sync.Locker); ok {
			x.Lock()
		} else if x, ok := any(*p).(sync.Locker); ok {
			x.Lock()
		} else {
			infra("simrt.Lock: receiver has no Lock method")
		}
		return
	}
	OpYield(site)
	for !tl.TryLock() {
		Block(site)
	}
}

// RLock is `p.RLock()` as a try-then-park loop.
func RLock[T any](site int, p *T) {
	var tl tryRLocker
	if x, ok := any(p).(tryRLocker); ok {
		tl = x
	} else if x, ok := any(*p).(tryRLocker); ok {
		tl = x
	}
	if tl == nil || !Active() || CurTask() < 0 {
		type rlocker interface{ RLock() }
		if x, ok := any(p).(rlocker); ok {
			x.RLock()
		} else if x, ok := any(*p).(rlocker); ok {
			x.RLock()
		} else {
			infra("simrt.RLock: receiver has no RLock method")
		}
		return
	}
	OpYield(site)
	for !tl.TryRLock() {
		Block(site)
	}
}

// WaitUntil parks the calling task until cond() is true (cond must be cheap
// and free of side effects).
func WaitUntil(site int, cond func() bool) {
	for !cond() {
		Block(site)
	}
}
