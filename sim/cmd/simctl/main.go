// simctl builds the instrumented worker from /repo's working tree, fans out
// simulated runs, confirms and minimises violations, matches them against
// known_findings.json and writes evidence/<ID>.json.
//
//	simctl check <ID> <quick|thorough>
//	simctl replay <ID> <file>
//	simctl selftest
//
// Exit 0: property held on everything explored. Exit 1: VIOLATION line(s)
// printed. Exit 2: infrastructure trouble (build, watchdog, nondeterminism).
package main

import (
	"bytes"
	"crypto/sha256"
	"encoding/binary"
	"encoding/json"
	"fmt"
	"os"
	"os/exec"
	"path/filepath"
	"regexp"
	"sort"
	"strconv"
	"strings"
	"sync"
	"time"

	"github.com/wader/fq/zzverif/sim/instr"
)

// repoDir is the tree under test: /repo, or (VERIF_REPO) a scratch worktree of it
// when a seeded change is evaluated without touching /repo.
var repoDir = func() string {
	if d := os.Getenv("VERIF_REPO"); d != "" {
		return d
	}
	return "/repo"
}()

// verifDir is where this checkout of the verification tree lives (VERIF_DIR
// lets a git worktree of /verif use its own sources).
var verifDir = func() string {
	if d := os.Getenv("VERIF_DIR"); d != "" {
		return d
	}
	return "/verif"
}()

func fatal2(f string, a ...any) {
	fmt.Fprintf(os.Stderr, "simctl: "+f+"\n", a...)
	os.Exit(2)
}

type workerAgg struct {
	Harness      string         `json:"harness"`
	Config       string         `json:"config"`
	Race         bool           `json:"race"`
	Runs         int            `json:"runs"`
	Nontrivial   int            `json:"nontrivial"`
	Faults       map[string]int `json:"faults"`
	Probes       map[string]int `json:"probes"`
	Extra        map[string]int `json:"extra"`
	Steps        int64          `json:"steps"`
	SimNanos     int64          `json:"sim_nanos"`
	Switches     int64          `json:"switches"`
	Pairs        []uint32       `json:"pairs"`
	Inconclusive []string       `json:"inconclusive"`
	NInconcl     int            `json:"n_inconclusive"`
	Samples      []any          `json:"samples"`
	Violations   []replayRec    `json:"violations"`
	VClassCount  map[string]int `json:"violation_class_count"`
	OtherProps   map[string]int `json:"other_property_violations"`
	WallS        float64        `json:"wall_s"`
	TimedOut     bool           `json:"timed_out"`
	NextIdx      int            `json:"next_idx"`
}

type violation struct {
	Property string `json:"property"`
	Oracle   string `json:"oracle"`
	Key      string `json:"key"`
	Detail   string `json:"detail"`
}

func (v violation) class() string { return v.Property + "|" + v.Oracle + "|" + v.Key }

type replayRec struct {
	Property    string    `json:"property"`
	Harness     string    `json:"harness"`
	Config      string    `json:"config"`
	Tier        string    `json:"tier"`
	Race        bool      `json:"race"`
	Seed        uint64    `json:"seed"`
	Idx         int       `json:"run_index"`
	Tape        []int32   `json:"tape"`
	BySeed      bool      `json:"by_seed,omitempty"`
	Violation   violation `json:"violation"`
	Sample      any       `json:"case,omitempty"`
	Trace       []string  `json:"trace,omitempty"`
	Shrunk      string    `json:"shrunk,omitempty"`
	RaceText    string    `json:"race_report,omitempty"`
	HistFrom    int       `json:"history_from"`
	HistStride  int       `json:"history_stride"`
	WithHistory bool      `json:"with_history,omitempty"`
}

type knownFile struct {
	Findings []struct {
		Property string `json:"property"`
		Oracle   string `json:"oracle"`
		Key      string `json:"key"`
		What     string `json:"what"`
	} `json:"findings"`
	Fixed []string `json:"fixed"`
}

func loadKnown() knownFile {
	var k knownFile
	b, err := os.ReadFile(filepath.Join(verifDir, "known_findings.json"))
	if err != nil {
		return k
	}
	if err := json.Unmarshal(b, &k); err != nil {
		fatal2("known_findings.json: %v", err)
	}
	return k
}

func (k knownFile) match(v violation) (string, bool) {
	for _, f := range k.Findings {
		if f.Property != v.Property || f.Oracle != v.Oracle {
			continue
		}
		if f.Key == v.Key || (strings.HasSuffix(f.Key, "*") && strings.HasPrefix(v.Key, strings.TrimSuffix(f.Key, "*"))) {
			return f.What, true
		}
	}
	return "", false
}

type build struct {
	dir      string
	overlay  string
	instr    *instr.Result
	plain    string
	race     string
	buildLog string
}

func goEnv() []string {
	env := os.Environ()
	env = append(env, "GOFLAGS=-mod=mod", "GOPROXY=off", "GOSUMDB=off", "GOTOOLCHAIN=local", "CGO_ENABLED=1")
	return env
}

func doBuild(needRace bool) *build {
	dir, err := os.MkdirTemp("", "fqsim-")
	if err != nil {
		fatal2("mktemp: %v", err)
	}
	b := &build{dir: dir}
	res, err := instr.Run(repoDir, filepath.Join(verifDir, "sim/simrt"), filepath.Join(dir, "ov"), instr.DefaultTargets)
	if err != nil {
		os.RemoveAll(dir)
		fatal2("instrumenting the working tree failed: %v", err)
	}
	b.instr = res
	b.overlay = res.OverlayPath
	for _, w := range res.Warnings {
		fmt.Println("instr warning:", w)
	}
	// go.sum must cover fq's dependencies
	if sum, err := os.ReadFile(filepath.Join(repoDir, "go.sum")); err == nil {
		mine, _ := os.ReadFile(filepath.Join(verifDir, "go.sum"))
		if !bytes.Contains(mine, sum[:min(len(sum), 200)]) {
			os.WriteFile(filepath.Join(verifDir, "go.sum"), append(sum, mine...), 0o644)
		}
	}
	var modArgs []string
	if repoDir != "/repo" {
		// same module graph, the fq module replaced by the scratch tree
		gm, _ := os.ReadFile(filepath.Join(verifDir, "go.mod"))
		gm = bytes.ReplaceAll(gm, []byte("=> /repo"), []byte("=> "+repoDir))
		os.WriteFile(filepath.Join(dir, "go.mod"), gm, 0o644)
		gs, _ := os.ReadFile(filepath.Join(verifDir, "go.sum"))
		os.WriteFile(filepath.Join(dir, "go.sum"), gs, 0o644)
		modArgs = []string{"-modfile=" + filepath.Join(dir, "go.mod")}
	}
	var wg sync.WaitGroup
	var errPlain, errRace error
	var outPlain, outRace []byte
	b.plain = filepath.Join(dir, "simw")
	wg.Add(1)
	go func() {
		defer wg.Done()
		cmd := exec.Command("go", append(append([]string{"build"}, modArgs...), "-overlay", b.overlay, "-o", b.plain, "./sim/cmd/simw")...)
		cmd.Dir = verifDir
		cmd.Env = goEnv()
		outPlain, errPlain = cmd.CombinedOutput()
	}()
	if needRace {
		b.race = filepath.Join(dir, "simw_race")
		wg.Add(1)
		go func() {
			defer wg.Done()
			cmd := exec.Command("go", append(append([]string{"build", "-race"}, modArgs...), "-overlay", b.overlay, "-o", b.race, "./sim/cmd/simw")...)
			cmd.Dir = verifDir
			cmd.Env = goEnv()
			outRace, errRace = cmd.CombinedOutput()
		}()
	}
	wg.Wait()
	if errPlain != nil || errRace != nil {
		fmt.Fprintf(os.Stderr, "%s\n%s\n", outPlain, outRace)
		os.RemoveAll(dir)
		fatal2("building the instrumented worker failed (plain: %v, race: %v)", errPlain, errRace)
	}
	return b
}

func (b *build) cleanup() { os.RemoveAll(b.dir) }

type stageResult struct {
	Stage      Stage
	Runs       int
	Agg        workerAgg
	Distinct   int
	WallS      float64
	Crashes    []string
	fps        map[uint64]struct{}
	pairs      map[uint32]struct{}
	Violations []replayRec
}

var raceHdr = regexp.MustCompile(`WARNING: DATA RACE`)

// runStage fans a stage out over workers.
func runStage(b *build, prop string, st Stage, tier string, seed uint64, workers int) *stageResult {
	runs := st.Quick
	maxSec := st.QuickSec
	if tier == "thorough" {
		runs = st.Thorough
		maxSec = st.ThoroughSec
	}
	sr := &stageResult{Stage: st, fps: map[uint64]struct{}{}, pairs: map[uint32]struct{}{}}
	sr.Agg.Faults, sr.Agg.Probes, sr.Agg.Extra = map[string]int{}, map[string]int{}, map[string]int{}
	sr.Agg.VClassCount, sr.Agg.OtherProps = map[string]int{}, map[string]int{}
	if runs <= 0 {
		return sr
	}
	if workers > runs {
		workers = runs
	}
	bin := b.plain
	if st.Race {
		bin = b.race
	}
	start := time.Now()
	var mu sync.Mutex
	var wg sync.WaitGroup
	for w := 0; w < workers; w++ {
		wg.Add(1)
		go func(w int) {
			defer wg.Done()
			from := w
			attempt := 0
			for from < runs {
				remaining := maxSec - time.Since(start).Seconds()
				if remaining <= 1 {
					break
				}
				prefix := filepath.Join(b.dir, fmt.Sprintf("out-%s-%s-%v-%d-%d", st.Harness, st.Config, st.Race, w, attempt))
				marker := prefix + ".marker"
				args := []string{"-harness", st.Harness, "-config", st.Config, "-tier", tier, "-seed", strconv.FormatUint(seed, 10),
					"-from", strconv.Itoa(from), "-to", strconv.Itoa(runs), "-stride", strconv.Itoa(workers), "-out", prefix, "-prop", prop,
					"-marker", marker, "-maxsec", fmt.Sprintf("%.0f", remaining), "-shrinksec", map[string]string{"quick": "30", "thorough": "120"}[tier]}
				if st.Race {
					args = append(args, "-race")
				}
				if st.HeapGB > 0 {
					args = append(args, "-memgb", strconv.Itoa(st.HeapGB))
				}
				var cmd *exec.Cmd
				if st.Race || st.MemGB == 0 {
					cmd = exec.Command(bin, args...)
				} else {
					sh := fmt.Sprintf("ulimit -v %d; exec \"$0\" \"$@\"", st.MemGB*1024*1024)
					cmd = exec.Command("sh", append([]string{"-c", sh, bin}, args...)...)
				}
				spin := "30000"
				if workers > 8 {
					spin = "0" // more workers than half the cores: spinning would only steal cycles
				}
				cmd.Env = append(os.Environ(), "GOMAXPROCS=4", "GORACE=halt_on_error=1 exitcode=66", "GOTRACEBACK=all", "SIMRT_SPIN="+spin, "VERIF_REPO="+repoDir)
				var stderr bytes.Buffer
				cmd.Stderr = &stderr
				cmd.Stdout = nil
				err := cmd.Run()
				var agg workerAgg
				if ab, rerr := os.ReadFile(prefix + ".json"); rerr == nil {
					json.Unmarshal(ab, &agg)
				}
				fpb, _ := os.ReadFile(prefix + ".fp")
				mu.Lock()
				mergeAgg(sr, &agg, fpb)
				mu.Unlock()
				if err == nil {
					break
				}
				code := -1
				if ee, ok := err.(*exec.ExitError); ok {
					code = ee.ExitCode()
				}
				died := from
				if mb, rerr := os.ReadFile(marker); rerr == nil && len(mb) >= 8 {
					died = int(binary.LittleEndian.Uint64(mb))
				}
				// Go prints the reason of a fatal error or panic first and the goroutine dump after it
				tail := stderr.String()
				if len(tail) > 8000 {
					tail = tail[:8000]
				}
				mu.Lock()
				switch {
				case code == 97:
					// watchdog: the running task reached no scheduling point for a long real time
					sr.Agg.NInconcl++
					sr.Crashes = append(sr.Crashes, fmt.Sprintf("run %d: no scheduling point within the watchdog (spin or native block): %s", died, watchdogFrame(stderr.String())))
				case code == 98:
					sr.Agg.NInconcl++
					sr.Crashes = append(sr.Crashes, fmt.Sprintf("run %d: heap limit exceeded (unbounded allocation): %s", died, watchdogFrame(stderr.String())))
				case code == 96:
					mu.Unlock()
					fmt.Fprintln(os.Stderr, stderr.String())
					fatal2("worker reported infrastructure trouble (harness=%s run=%d)", st.Harness, died)
				case code == 66 || raceHdr.MatchString(stderr.String()):
					full := stderr.String()
					if i := strings.Index(full, "WARNING: DATA RACE"); i >= 0 {
						full = full[i:]
					}
					if len(full) > 12000 {
						full = full[:12000]
					}
					sr.Violations = append(sr.Violations, replayRec{Property: prop, Harness: st.Harness, Config: st.Config, Tier: tier, Race: true, Seed: seed, Idx: died, BySeed: true,
						Violation: violation{Property: prop, Oracle: "data-race", Key: raceKey(full), Detail: "race detector report in a serialised execution"}, RaceText: full})
				case resourceDeath(tail) || code == -1:
					sr.Agg.NInconcl++
					sr.Crashes = append(sr.Crashes, fmt.Sprintf("run %d: resource death (exit %d): %s", died, code, firstLine(tail)))
				default:
					// an unrecovered crash of the worker inside a run: a candidate violation, confirmed by replay
					sr.Violations = append(sr.Violations, replayRec{Property: prop, Harness: st.Harness, Config: st.Config, Tier: tier, Race: st.Race, Seed: seed, Idx: died, BySeed: true,
						Violation: violation{Property: prop, Oracle: "process-crash", Key: crashKey(tail), Detail: tail}})
					sr.Crashes = append(sr.Crashes, fmt.Sprintf("run %d: worker crashed (exit %d): %s", died, code, firstLine(tail)))
				}
				mu.Unlock()
				// resume after the run that died; runs between the last checkpoint and it are repeated
				if agg.NextIdx > from && agg.NextIdx <= died {
					// checkpointed progress is already merged; continue past the dead run
				}
				from = died + workers
				attempt++
				if attempt > 200 {
					break
				}
			}
		}(w)
	}
	wg.Wait()
	sr.WallS = time.Since(start).Seconds()
	sr.Distinct = len(sr.fps)
	return sr
}

// watchdogFrame names the innermost fq frame of the goroutine that was running.
func watchdogFrame(dump string) string {
	for _, blk := range strings.Split(dump, "\n\n") {
		if !strings.Contains(blk, "[runnable") && !strings.Contains(blk, "[running") {
			continue
		}
		for _, f := range fqFrames(blk) {
			if !isHarnessFrame(f) {
				return strings.TrimPrefix(f, "github.com/wader/fq/")
			}
		}
	}
	return "unknown frame"
}

func firstLine(s string) string {
	for _, l := range strings.Split(s, "\n") {
		if strings.Contains(l, "fatal error") || strings.Contains(l, "panic:") {
			return l
		}
	}
	if i := strings.IndexByte(s, '\n'); i >= 0 {
		return s[:i]
	}
	return s
}

var frameRe = regexp.MustCompile(`(?m)^\s*(github\.com/wader/fq/.+)\([^()\n]*\)\s*$`)

func fqFrames(text string) []string {
	var out []string
	for _, m := range frameRe.FindAllStringSubmatch(text, -1) {
		out = append(out, m[1])
	}
	return out
}

func isHarnessFrame(f string) bool {
	return strings.Contains(f, "/zzverif/") || strings.Contains(f, "/internal/simrt")
}

// raceKey: the top frames of both accesses.
func raceKey(report string) string {
	parts := regexp.MustCompile(`(?m)^(Previous |)(Read|Write|read|write|Atomic|atomic)[^\n]*\n`).Split(report, -1)
	var tops []string
	for _, p := range parts[1:] {
		fr := frameRe.FindStringSubmatch(p)
		if fr != nil {
			tops = append(tops, strings.TrimPrefix(fr[1], "github.com/wader/fq/"))
		} else {
			tops = append(tops, "?")
		}
		if len(tops) == 2 {
			break
		}
	}
	sort.Strings(tops)
	return strings.Join(tops, "<>")
}

func crashKey(tail string) string {
	fl := firstLine(tail)
	for _, f := range fqFrames(tail) {
		if !isHarnessFrame(f) {
			return strings.TrimPrefix(f, "github.com/wader/fq/") + ":" + fl
		}
	}
	return fl
}

func mergeAgg(sr *stageResult, a *workerAgg, fpb []byte) {
	sr.Runs += a.Runs
	sr.Agg.Runs += a.Runs
	sr.Agg.Nontrivial += a.Nontrivial
	for k, v := range a.Faults {
		sr.Agg.Faults[k] += v
	}
	for k, v := range a.Probes {
		sr.Agg.Probes[k] += v
	}
	for k, v := range a.Extra {
		sr.Agg.Extra[k] += v
	}
	for k, v := range a.VClassCount {
		sr.Agg.VClassCount[k] += v
	}
	for k, v := range a.OtherProps {
		sr.Agg.OtherProps[k] += v
	}
	sr.Agg.Steps += a.Steps
	sr.Agg.SimNanos += a.SimNanos
	sr.Agg.Switches += a.Switches
	sr.Agg.NInconcl += a.NInconcl
	if len(sr.Agg.Inconclusive) < 20 {
		sr.Agg.Inconclusive = append(sr.Agg.Inconclusive, a.Inconclusive...)
	}
	if len(sr.Agg.Samples) < 4 {
		sr.Agg.Samples = append(sr.Agg.Samples, a.Samples...)
	}
	if a.TimedOut {
		sr.Agg.TimedOut = true
	}
	for _, p := range a.Pairs {
		sr.pairs[p] = struct{}{}
	}
	for i := 0; i+8 <= len(fpb); i += 8 {
		sr.fps[binary.LittleEndian.Uint64(fpb[i:])] = struct{}{}
	}
	sr.Violations = append(sr.Violations, a.Violations...)
}

func envSeed() uint64 {
	if s := os.Getenv("VERIF_SEED"); s != "" {
		if v, err := strconv.ParseInt(s, 10, 64); err == nil {
			return uint64(v)
		}
		if v, err := strconv.ParseUint(s, 10, 64); err == nil {
			return v
		}
	}
	return 1
}

func main() {
	if len(os.Args) < 2 {
		fatal2("usage: simctl check <ID> <tier> | replay <ID> <file> | selftest")
	}
	switch os.Args[1] {
	case "check":
		if len(os.Args) < 4 {
			fatal2("usage: simctl check <ID> <quick|thorough>")
		}
		tier := os.Args[3]
		if t := os.Getenv("VERIF_TIER"); t == "quick" || t == "thorough" {
			tier = t
		}
		os.Exit(check(os.Args[2], tier))
	case "replay":
		if len(os.Args) < 4 {
			fatal2("usage: simctl replay <ID> <file>")
		}
		os.Exit(replay(os.Args[2], os.Args[3]))
	case "selftest":
		os.Exit(selftest())
	case "warm":
		b := doBuild(true)
		b.cleanup()
		fmt.Println("build cache warmed (plain and race worker)")
	case "build":
		b := doBuild(len(os.Args) > 2 && os.Args[2] == "race")
		fmt.Println(b.dir)
	default:
		fatal2("unknown command %s", os.Args[1])
	}
}

// partialRun: VERIF_ONLY_HARNESS was given
var partialRun bool

func check(id, tier string) int {
	plan, ok := plans[id]
	if !ok {
		fatal2("no check for property %s", id)
	}
	if tier != "quick" && tier != "thorough" {
		fatal2("tier must be quick or thorough")
	}
	if only := os.Getenv("VERIF_ONLY_HARNESS"); only != "" {
		// development aid: run only the stages of one harness; such a run is not evidence
		var keep []Stage
		for _, st := range plan.Stages {
			if st.Harness == only {
				keep = append(keep, st)
			}
		}
		plan.Stages = keep
		partialRun = true
	}
	seed := envSeed()
	fmt.Printf("SEED property=%s tier=%s VERIF_SEED=%d\n", id, tier, seed)
	start := time.Now()
	needRace := false
	for _, st := range plan.Stages {
		if st.Race {
			needRace = true
		}
	}
	b := doBuild(needRace)
	defer b.cleanup()
	buildS := time.Since(start).Seconds()
	workers := 8
	if tier == "thorough" {
		workers = 16
	}
	known := loadKnown()
	var stages []*stageResult
	for _, st := range plan.Stages {
		w := workers
		if st.Workers > 0 && st.Workers < w {
			w = st.Workers
		}
		sr := runStage(b, id, st, tier, seed, w)
		stages = append(stages, sr)
		fmt.Printf("stage harness=%s config=%s race=%v runs=%d distinct=%d wall=%.1fs violations=%d inconclusive=%d\n",
			st.Harness, st.Config, st.Race, sr.Runs, sr.Distinct, sr.WallS, len(sr.Violations), sr.Agg.NInconcl)
	}
	// triage
	byClass := map[string]replayRec{}
	var order []string
	for _, sr := range stages {
		for _, v := range sr.Violations {
			if v.Violation.Property == "HARNESS" {
				fmt.Fprintf(os.Stderr, "harness failure: %s\n", v.Violation.Detail)
				b.cleanup()
				fatal2("a harness reported its own failure (run %d of %s)", v.Idx, v.Harness)
			}
			c := v.Violation.class()
			if _, ok := byClass[c]; !ok {
				byClass[c] = v
				order = append(order, c)
			}
		}
	}
	sort.Strings(order)
	nViol := 0
	var unreproduced []string
	var knownHit []string
	exit := 0
	replayDir := filepath.Join(verifDir, "replays")
	if repoDir != "/repo" {
		replayDir = filepath.Join(os.TempDir(), "fqsim-scratch-replays")
	}
	os.MkdirAll(replayDir, 0o755)
	for _, c := range order {
		rp := byClass[c]
		if what, ok := known.match(rp.Violation); ok {
			line := fmt.Sprintf("KNOWN-FINDING: property=%s %s [%s/%s] %s", id, what, rp.Violation.Oracle, rp.Violation.Key, "")
			fmt.Println(strings.TrimSpace(line))
			knownHit = append(knownHit, rp.Violation.Oracle+"/"+rp.Violation.Key)
			continue
		}
		// confirm in a fresh process
		path := filepath.Join(replayDir, fmt.Sprintf("%s-%s.json", id, shortHash(c)))
		jb, _ := json.MarshalIndent(rp, "", " ")
		os.WriteFile(path, jb, 0o644)
		// the whole-fq harnesses inherit some nondeterminism from Go map iteration inside
		// fq/gojq (order of lazy reads): a violation counts if any of a few replays shows it
		code, out := runReplay(b, path)
		for attempt := 0; code == 3 && attempt < 4; attempt++ {
			code, out = runReplay(b, path)
		}
		if code == 3 && !rp.Race && !rp.BySeed && rp.HistStride > 0 && rp.HistFrom < rp.Idx {
			// a property over histories: the state left in the process by the runs the
			// worker had executed before may be part of the failing input
			rp.WithHistory = true
			jb, _ := json.MarshalIndent(rp, "", " ")
			os.WriteFile(path, jb, 0o644)
			code, out = runReplay(b, path)
			if code != 1 {
				code = 3 // a resource death inside the re-executed history is not a reproduction
			}
			if code == 1 {
				fmt.Printf("  (reproduces in a fresh process only after re-executing the %d earlier runs of its worker: history-dependent)\n", (rp.Idx-rp.HistFrom)/rp.HistStride)
			}
		}
		switch code {
		case 1:
			if rp.Race {
				// classify the fresh report
				if !raceIsFq(out) {
					fmt.Fprintln(os.Stderr, out)
					b.cleanup()
					fatal2("race report with a harness frame on top (harness bug), run %d", rp.Idx)
				}
			}
			nViol++
			exit = 1
			fmt.Printf("VIOLATION property=%s replay=%s\n", id, path)
			fmt.Printf("  oracle=%s key=%s\n  %s\n", rp.Violation.Oracle, rp.Violation.Key, firstN(rp.Violation.Detail, 1500))
		case 3:
			// seen once, not reproduced in 5 fresh-process replays: the residual
			// nondeterminism of fq itself (Go map iteration) - listed, never reported
			os.Remove(path)
			unreproduced = append(unreproduced, c)
			fmt.Printf("UNREPRODUCED: %s (seen in run %d, not in 5 replays; not reported)\n", c, rp.Idx)
		default:
			fmt.Fprintln(os.Stderr, out)
			os.Remove(path)
			b.cleanup()
			fatal2("replaying %s failed with exit %d", path, code)
		}
	}
	writeEvidence(id, tier, seed, plan, b, stages, nViol, knownHit, unreproduced, time.Since(start).Seconds(), buildS)
	return exit
}

// resourceDeath: the process died because the machine (or a limit) ran out of
// memory, threads or address space - never a verdict about fq.
func resourceDeath(text string) bool {
	for _, m := range []string{"out of memory", "cannot allocate", "signal: killed", "pthread_create failed", "Resource temporarily unavailable",
		"failed to create new OS thread", "newosproc", "limit on 8128 simultaneously alive goroutines", "ThreadSanitizer: failed to", "mmap: cannot", "errno=12", "errno=11"} {
		if strings.Contains(text, m) {
			return true
		}
	}
	return false
}

func firstN(s string, n int) string {
	if len(s) > n {
		return s[:n] + "…"
	}
	return s
}

func shortHash(s string) string {
	h := sha256.Sum256([]byte(s))
	return fmt.Sprintf("%x", h[:6])
}

func raceIsFq(report string) bool {
	k := raceKey(report)
	if strings.Contains(k, "?") {
		return false
	}
	for _, part := range strings.Split(k, "<>") {
		if isHarnessFrame("github.com/wader/fq/" + part) {
			return false
		}
	}
	return true
}

// runReplay executes a replay file in a fresh worker process.
func runReplay(b *build, path string) (int, string) {
	jb, err := os.ReadFile(path)
	if err != nil {
		return 2, err.Error()
	}
	var rp replayRec
	if err := json.Unmarshal(jb, &rp); err != nil {
		return 2, err.Error()
	}
	bin := b.plain
	if rp.Race {
		bin = b.race
		if bin == "" {
			return 2, "race build not available"
		}
	}
	var cmd *exec.Cmd
	if rp.BySeed {
		args := []string{"-harness", rp.Harness, "-config", rp.Config, "-tier", rp.Tier, "-seed", strconv.FormatUint(rp.Seed, 10),
			"-from", strconv.Itoa(rp.Idx), "-to", strconv.Itoa(rp.Idx + 1), "-prop", rp.Property}
		if rp.Race {
			args = append(args, "-race")
		}
		cmd = exec.Command(bin, args...)
	} else {
		args := []string{"-replay", path}
		if rp.Race {
			args = append(args, "-race")
		}
		cmd = exec.Command(bin, args...)
	}
	cmd.Env = append(os.Environ(), "GOMAXPROCS=4", "GORACE=halt_on_error=1 exitcode=66", "GOTRACEBACK=all", "VERIF_REPO="+repoDir)
	out, err := cmd.CombinedOutput()
	code := 0
	if ee, ok := err.(*exec.ExitError); ok {
		code = ee.ExitCode()
	} else if err != nil {
		return 2, err.Error()
	}
	if rp.BySeed {
		switch {
		case rp.Violation.Oracle == "data-race":
			if code == 66 || raceHdr.Match(out) {
				return 1, string(out)
			}
			return 3, string(out)
		default:
			if code == 97 || code == 98 || (code != 0 && resourceDeath(firstN(string(out), 8000))) {
				return 3, string(out) // resource death of the replay: not a reproduction
			}
			if code != 0 && code != 96 {
				return 1, string(out)
			}
			if code == 0 {
				return 3, string(out)
			}
			return 2, string(out)
		}
	}
	return code, string(out)
}

func replay(id, path string) int {
	jb, err := os.ReadFile(path)
	if err != nil {
		fatal2("%v", err)
	}
	var rp replayRec
	if err := json.Unmarshal(jb, &rp); err != nil {
		fatal2("%v", err)
	}
	b := doBuild(rp.Race)
	defer b.cleanup()
	code, out := runReplay(b, path)
	fmt.Print(out)
	switch code {
	case 1:
		fmt.Printf("VIOLATION property=%s replay=%s\n", id, path)
		return 1
	case 3:
		fmt.Println("replay did not reproduce the violation on this tree")
		return 0
	}
	return 2
}

func writeEvidence(id, tier string, seed uint64, plan Plan, b *build, stages []*stageResult, nViol int, knownHit []string, unreproduced []string, wall, buildS float64) {
	evals, distinct := 0, 0
	faults, probes, extra := map[string]int{}, map[string]int{}, map[string]int{}
	var simNanos, steps, switches int64
	pairs := map[uint32]struct{}{}
	var samples []any
	var stageInfo []map[string]any
	var inconclusive []string
	nInc := 0
	for _, sr := range stages {
		evals += sr.Runs
		distinct += sr.Distinct
		for k, v := range sr.Agg.Faults {
			faults[k] += v
		}
		for k, v := range sr.Agg.Probes {
			probes[k] += v
		}
		for k, v := range sr.Agg.Extra {
			extra[k] += v
		}
		simNanos += sr.Agg.SimNanos
		steps += sr.Agg.Steps
		switches += sr.Agg.Switches
		for p := range sr.pairs {
			pairs[p] = struct{}{}
		}
		for _, s := range sr.Agg.Samples {
			if len(samples) < 6 {
				samples = append(samples, map[string]any{"harness": sr.Stage.Harness, "config": sr.Stage.Config, "case": s})
			}
		}
		nInc += sr.Agg.NInconcl
		inconclusive = append(inconclusive, sr.Agg.Inconclusive...)
		inconclusive = append(inconclusive, sr.Crashes...)
		stageInfo = append(stageInfo, map[string]any{"harness": sr.Stage.Harness, "config": sr.Stage.Config, "race_mode": sr.Stage.Race, "runs": sr.Runs,
			"distinct_fingerprints": sr.Distinct, "wall_s": round1(sr.WallS), "timed_out": sr.Agg.TimedOut, "violation_classes": sr.Agg.VClassCount})
	}
	var unreached []string
	for _, p := range plan.ExpectProbes {
		if probes[p] == 0 && faults[p] == 0 && extra[p] == 0 {
			unreached = append(unreached, p)
		}
	}
	if len(samples) == 0 {
		samples = append(samples, "no non-trivial case was produced")
	}
	if len(inconclusive) > 30 {
		inconclusive = inconclusive[:30]
	}
	files := map[string]string{}
	for rel, n := range b.instr.Files {
		src, _ := os.ReadFile(filepath.Join(repoDir, rel))
		h := sha256.Sum256(src)
		files[rel] = fmt.Sprintf("%s, source sha256 %x", n, h[:8])
	}
	exploreS := wall - buildS
	if exploreS < 0.001 {
		exploreS = 0.001
	}
	ev := map[string]any{
		"property_id": id,
		"tier":        tier,
		"seed":        int64(seed),
		"level":       "exploration",
		"coverage": map[string]any{
			"evaluations":                 evals,
			"distinct_nontrivial":         distinct,
			"rule":                        plan.Rule,
			"samples":                     samples,
			"simulated_runs_per_hour":     int(float64(evals) / exploreS * 3600),
			"simulated_seconds_covered":   float64(simNanos) / 1e9,
			"scheduling_points":           steps,
			"context_switches":            switches,
			"distinct_switch_site_pairs":  len(pairs),
			"faults_fired":                faults,
			"probes":                      probes,
			"counters":                    extra,
			"unreached_probes":            unreached,
			"stages":                      stageInfo,
			"resource_inconclusive":       nInc,
			"resource_inconclusive_cases": inconclusive,
			"known_findings_hit":          knownHit,
			"unreproduced_not_reported":   unreproduced,
			"real_components":             plan.Real,
			"stubbed_components":          plan.Stub,
			"instrumented_files":          files,
			"knobs_found":                 b.instr.KnobsFound,
			"instrumenter_warnings":       b.instr.Warnings,
			"build_s":                     round1(buildS),
		},
		"assumptions": plan.Assumptions,
		"wall_s":      round1(wall),
		"violations":  nViol,
	}
	jb, _ := json.MarshalIndent(ev, "", " ")
	evDir := filepath.Join(verifDir, "evidence")
	if repoDir != "/repo" || partialRun {
		// a run against a scratch tree (or of some stages only) is not evidence about /repo
		evDir = filepath.Join(os.TempDir(), "fqsim-scratch-evidence")
	}
	os.MkdirAll(evDir, 0o755)
	if err := os.WriteFile(filepath.Join(evDir, id+".json"), jb, 0o644); err != nil {
		fatal2("writing evidence: %v", err)
	}
}

func round1(f float64) float64 { return float64(int(f*10+0.5)) / 10 }
