package harness

import (
	"bytes"
	"fmt"
	"sort"
	"strings"

	"github.com/wader/fq/internal/simrt"
	"github.com/wader/fq/zzverif/sim/core"
	"github.com/wader/fq/zzverif/sim/simos"
)

// H-SYS / C20 system tier (DESIGN §3 C20). Real: the whole of fq in REPL mode
// (fq -i) with nested `repl`, multi-output lines whose every value is displayed
// in a sub-evaluation, and the simulated OS delivering 0..3 interrupts at
// tape-chosen scheduling points (during an evaluation, between evaluations,
// inside Readline, together with ^D) plus ^C at the prompt. Reference = the
// same session without interrupts.
//
// Oracle, per segment (the output between one Readline return and the next
// Readline call): every scripted line is context free, so its reference output
// is known by its text. No interrupt sent during the segment => the output is
// exactly the reference. n interrupts sent during it => the reference with at
// most n contiguous pieces removed (each interrupt cancels one innermost
// evaluation, whose remaining output is lost), nothing added. If no interrupt
// was sent while fq sat in Readline, every scripted line is still read (outer
// levels keep their contexts). Always: Main returns, no panic, no deadlock.

func init() { core.Register(&hrepl{}) }

type hrepl struct{}

func (*hrepl) Name() string { return "hrepl" }

const siteReplInt = 60400

func init() { simrt.RegisterSite(siteReplInt, "hrepl:interrupter") }

// lines with exactly one (large) output value: the whole output of such a line belongs to one
// display evaluation, written in several chunks
// (large enough for a dozen or more terminal writes each)
var replBigLines = []string{`[range(20000)]`, `[range(12000)] | map(tostring)`, `"y" * 150000`, `[range(6000)] | map({a: .})`}

var replLines = []string{
	`123`, `"abc"`, `[1,2,3] | length`, `range(12)`, `range(40) | tostring`, `[range(30)]`, `{a: 1, b: [2, 3]}`,
	`"x" * 300`, `1, 2, 3`, `error("boom")`, `1, error("mid"), 2`, `[1] | .[0] | tostring | error`, `try error("caught") catch .`, `{} | .a.b | error("nope")`, `[range(2000)] | length`, `range(6) | . * 2`, `"line" , "two"`, `null`, `[range(15)] | map(. + 1)`,
}

// typed and completed with TAB inside Readline; each evaluates `history` (an OS call and so a
// scheduling point) several times inside the completion evaluation
var replCompletions = []string{
	`([history, history, history] | length | {ab: .}) | .a`,
	`(history | {key1: 1, key2: history}) | .k`,
	`([history, history] | {x: (history | length)}) | .`,
	`[history, history, history, history] | le`,
}

func isBigLine(l string) bool {
	l = strings.TrimSpace(l)
	for _, b := range replBigLines {
		if l == b {
			return true
		}
	}
	return false
}

type replSeg struct {
	line    simos.Line
	out     []byte
	callSeq int // Readline call
	retSeq  int // Readline return
	endSeq  int // next Readline call (or end of run)
}

func segments(o *simos.OS, endSeq int) []replSeg {
	var segs []replSeg
	for i, ev := range o.RL {
		if !ev.Returned {
			break
		}
		s := replSeg{line: ev.Line, callSeq: ev.Seq, retSeq: ev.SeqRet, endSeq: endSeq}
		startLen := ev.OutLen
		endLen := len(o.Out.Buf)
		if i+1 < len(o.RL) {
			s.endSeq = o.RL[i+1].Seq
			endLen = o.RL[i+1].OutLen
		}
		// output written while Readline itself ran belongs to nobody: there is none,
		// the prompt is not written to stdout by the simulated terminal
		if startLen <= endLen && endLen <= len(o.Out.Buf) {
			s.out = o.Out.Buf[startLen:endLen]
		}
		segs = append(segs, s)
	}
	return segs
}

// removable reports whether obs is ref with at most n contiguous pieces removed.
func removable(ref, obs []byte, n int) bool {
	type key struct{ i, j, n int }
	memo := map[key]bool{}
	var rec func(i, j, n int) bool
	rec = func(i, j, n int) bool {
		// skip the common part
		for i < len(ref) && j < len(obs) && ref[i] == obs[j] {
			i++
			j++
		}
		if j == len(obs) {
			return i == len(ref) || n > 0
		}
		if i == len(ref) || n == 0 {
			return false
		}
		k := key{i, j, n}
		if v, ok := memo[k]; ok {
			return v
		}
		ok := false
		for q := i + 1; q < len(ref) && !ok; q++ {
			if ref[q] == obs[j] {
				ok = rec(q, j, n-1)
			}
		}
		memo[k] = ok
		return ok
	}
	return rec(0, 0, n)
}

type replScript struct {
	lines []simos.Line
	descr []string
}

func genScript(t *simrt.Tape) replScript {
	var sc replScript
	depth := 0
	n := 3 + t.Intn(8)
	used := map[string]bool{}
	for i := 0; i < n; i++ {
		switch k := t.Intn(12); {
		case k == 0 && depth < 2:
			sc.lines = append(sc.lines, simos.Line{Text: fmt.Sprintf("%d | repl", 100+i)})
			sc.descr = append(sc.descr, "repl{")
			depth++
		case k == 1 && depth > 0:
			sc.lines = append(sc.lines, simos.Line{EOF: true})
			sc.descr = append(sc.descr, "}^D")
			depth--
		case k == 2:
			sc.lines = append(sc.lines, simos.Line{Interrupt: true})
			sc.descr = append(sc.descr, "^C")
		default:
			l := replLines[t.Intn(len(replLines))]
			if t.Intn(4) == 0 {
				l = replBigLines[t.Intn(len(replBigLines))]
			}
			// unique texts: a line's reference output is looked up by its text
			for used[l] {
				l = l + " "
			}
			used[l] = true
			ln := simos.Line{Text: l}
			d := strings.TrimSpace(l)
			if t.Intn(4) == 0 {
				// TAB before the line is entered: a completion evaluation runs while fq sits in
				// Readline; `history` is an OS seam, so the interrupter can be scheduled while
				// that evaluation is in progress
				ln.Complete = replCompletions[t.Intn(len(replCompletions))]
				d = "<TAB " + ln.Complete + "> " + d
			}
			sc.lines = append(sc.lines, ln)
			sc.descr = append(sc.descr, d)
		}
	}
	for ; depth >= 0; depth-- {
		sc.lines = append(sc.lines, simos.Line{EOF: true})
		sc.descr = append(sc.descr, "^D")
	}
	return sc
}

// programs for the single-evaluation (CLI) mode; some first run an inner evaluation that
// ends with an error or is abandoned, so that finished evaluations are on record when the
// interrupt arrives
var replCLIProgs = []string{
	`range(60), (.k | .[])`,
	`(try eval("error(\"inner\")") catch "caught"), range(80)`,
	// not here: first(eval("1, 2")) - an evaluation abandoned by its consumer stays on the stack
	// until the enclosing one finishes and absorbs the next interrupt (DESIGN section 4: neither
	// "in progress" nor "finished" in the words of the statement, so not flagged)
	`(try (eval("1, error(\"x\")") | tostring) catch "c"), (range(70) | tostring)`,
	`[eval("1,2,3")], range(90)`,
}

func replOS(t *simrt.Tape, sc replScript, cli bool, cliProg string) *simos.OS {
	o := simos.New(t)
	o.Disk.Benign = true
	o.AddFile("in.json", simos.Regular, []byte(`{"k": [1, 2, 3]}`+"\n"))
	if cli {
		o.ArgsV = []string{"fq", "-c", cliProg, "in.json"}
	} else {
		o.ArgsV = []string{"fq", "-i", ".", "in.json"}
		o.Lines = sc.lines
	}
	o.Out.IsTerm = true
	o.HistoryYields = 16
	return o
}

func (*hrepl) Run(rc *core.RunCtx) *core.RunResult {
	res := core.NewResult()
	t := rc.T
	cli := t.Intn(5) == 0
	cliProg := replCLIProgs[t.Intn(len(replCLIProgs))]
	sc := genScript(t)
	nInts := t.Intn(4)
	// interrupts are addressed by OS event number (terminal writes, readline calls and
	// returns) so that they land inside the session, not in fq's start-up
	fracs := make([]int, nInts)
	for i := range fracs {
		fracs[i] = t.Intn(1000)
	}
	refEvents := 150
	aimAtCompletion := t.Intn(2) == 0 // one interrupt is aimed at a `history` call of a completion, if there is any
	aimWhich := t.Intn(1000)
	// reference: same session, no interrupts (plain build only)
	var refSeg map[string][]byte
	var refOut []byte
	var refReads int
	var refHist []int
	if !rc.Race {
		ro := replOS(t, sc, cli, cliProg)
		rr := runFQ(t, ro, fqOpts{Policy: simrt.PolSequential})
		res.Steps += rr.Stats.Steps
		if !rr.abnormal(res, "C20", "reference session "+strings.Join(sc.descr, " ; ")) {
			return res
		}
		refOut = append([]byte(nil), ro.Out.Buf...)
		refSeg = map[string][]byte{}
		for _, s := range segments(ro, 1<<30) {
			if s.line.Text != "" {
				refSeg[s.line.Text] = append([]byte(nil), s.out...)
			}
		}
		refReads = len(ro.RL)
		refEvents = ro.SeqNow()
		refHist = append(refHist, ro.HistSeq...)
	}
	targets := make([]int, nInts)
	for i, f := range fracs {
		targets[i] = 1 + f*(refEvents+3)/1000
	}
	if aimAtCompletion && nInts > 0 && len(refHist) > 0 {
		targets[0] = refHist[aimWhich%len(refHist)]
	}
	sort.Ints(targets)
	// the session under interrupts
	o := replOS(t, sc, cli, cliProg)
	type sent struct {
		pre    int // OS event count just before the interrupt was sent
		seq    int
		ok     bool
		outLen int
		// absorbed: sent while the fq task was parked inside a `history` call of a completion
		// evaluation and fully processed (channel empty, trigger goroutine waiting again) before
		// that call continued: it cancelled the completion evaluation (or one nested in it)
		absorbed bool
	}
	ints := make([]sent, 0, 8)
	// number of delivered interrupts that are certainly fully processed: the channel is empty
	// and the trigger goroutine waits in its select again
	processed := 0
	nSentOK := 0
	o.Out.OnWrite = func() int {
		if replChanEmpty(o) && simrt.BlockedAt("pkg/interp/interp.go") {
			processed = nSentOK
		}
		return processed
	}
	o.OnHistoryResume = func(pre int) {
		if !replChanEmpty(o) || !simrt.BlockedAt("pkg/interp/interp.go") {
			return
		}
		replEach(&ints, func(s *sent) {
			if s.ok && s.pre >= pre {
				s.absorbed = true
			}
		})
	}
	run := runFQ(t, o, fqOpts{Policy: []int{simrt.PolUniform, simrt.PolSticky2, simrt.PolSticky2, simrt.PolSticky8}[t.Intn(4)], Fine: t.Intn(3) == 0, Extra: func(sim *simrt.Sim) {
		if nInts == 0 {
			return
		}
		sim.Spawn("interrupter", true, func() {
			for _, target := range targets {
				for o.SeqNow() < target {
					// not a busy wait: a blocked task is retried only after others made progress
					simrt.Block(siteReplInt)
				}
				pre := o.Seq()
				ok := o.Interrupt()
				if ok {
					replInc(&nSentOK)
				}
				replNote(&ints, sent{pre: pre, seq: o.Seq(), ok: ok, outLen: replOutLen(o)})
			}
		})
	}})
	run.account(res, o)
	res.Fingerprint = run.Stats.Fingerprint
	delivered := 0
	absorbed := 0
	for _, ev := range o.RL {
		if ev.CompSeq > 0 {
			res.Probes["completions"]++
			if ev.CompNames > 0 {
				res.Probes["completions_with_names"]++
			}
		}
	}
	res.Probes["history_calls"] += len(o.HistSeq)
	for _, s := range ints {
		if s.ok && s.absorbed {
			absorbed++
			res.Faults["interrupt_during_completion"]++
		}
		if s.ok {
			delivered++
			res.Faults["interrupt"]++
		} else {
			res.Faults["interrupt_dropped"]++
		}
	}
	for _, l := range sc.lines {
		if l.Interrupt {
			res.Faults["ctrl_c_at_prompt"]++
		}
	}
	res.Nontrivial = delivered > 0 || len(o.RL) > 2
	mode := "repl"
	if cli {
		mode = "cli"
	}
	var intDescr []string
	for _, s := range ints {
		intDescr = append(intDescr, fmt.Sprintf("seq=%d ok=%v out=%d", s.seq, s.ok, s.outLen))
	}
	res.Sample = map[string]any{"interrupt_points": intDescr, "out_len": len(o.Out.Buf), "os_events": o.Seq(), "steps": run.Stats.Steps, "mode": mode, "script": strings.Join(sc.descr, " ; "), "interrupts_sent": len(ints), "delivered": delivered, "policy": run.Stats.Policy, "readline_calls": len(o.RL), "exit": run.Res.Exit}
	what := fmt.Sprintf("%s session [%s] with %d interrupts", mode, strings.Join(sc.descr, " ; "), delivered)
	if cli {
		what = fmt.Sprintf("cli run of %q with %d interrupts", cliProg, delivered)
	}
	if !run.abnormal(res, "C20", what) {
		return res
	}
	if rc.Race {
		return res
	}
	viol := func(oracle, key, f string, a ...any) {
		var is []string
		for _, s := range ints {
			is = append(is, fmt.Sprintf("seq %d ok=%v out=%d", s.seq, s.ok, s.outLen))
		}
		res.Violate("C20", oracle, key, what+": "+fmt.Sprintf(f, a...)+"\n  interrupts: "+strings.Join(is, ", ")+fmt.Sprintf("\n  policy %s exit %d stderr %q", run.Stats.Policy, run.Res.Exit, firstN(string(run.Res.Stderr), 300)))
		if res.Trace == nil {
			res.Trace = run.Trace
		}
	}
	// ordinal (1-based, among the delivered ones) of the first interrupt that was sent
	// after OS event at: only such an interrupt is certain to be processed - received
	// and its cancel called - while whatever started writing before at is still on top
	firstSentAfter := func(at int) int {
		k := 0
		for _, s := range ints {
			if !s.ok {
				continue
			}
			k++
			if s.pre > at {
				return k
			}
		}
		return 1 << 30
	}
	if cli {
		// an interrupt cancels the one evaluation there is: once it has been fully processed
		// after the first write, at most the write already past the context check may follow
		// (an interrupt that arrives while a nested eval() runs cancels that one only:
		// the program may absorb as many interrupts as it has nested evaluations)
		late := 0
		if len(o.Out.WriteAt) > 0 {
			k0 := firstSentAfter(o.Out.WriteAt[0]) + strings.Count(cliProg, "eval(")
			for wi := 1; wi < len(o.Out.WriteAt) && wi < len(o.Out.WriteTag); wi++ {
				if o.Out.WriteTag[wi] >= k0 {
					late++
				}
			}
		}
		res.Probes["cli_sessions"]++
		if late >= 5 {
			viol("output-after-cancellation", "cli", "program %q: an interrupt was fully processed after the first write, yet %d further writes reached the terminal", cliProg, late)
			return res
		}
		// one evaluation: its output is the reference with at most one piece per interrupt removed
		if delivered == 0 {
			if !bytes.Equal(o.Out.Buf, refOut) {
				viol("output-differs-without-interrupt", "cli", "no interrupt was delivered but the output differs from the reference")
			}
			return res
		}
		first := 1 << 30
		for _, s := range ints {
			if s.ok && s.outLen < first {
				first = s.outLen
			}
		}
		if first > len(o.Out.Buf) {
			first = len(o.Out.Buf)
		}
		if first <= len(refOut) && !bytes.Equal(o.Out.Buf[:first], refOut[:first]) {
			viol("finished-output-changed", "cli", "output written before the first interrupt differs from the reference")
		} else if !removable(refOut, o.Out.Buf, delivered) {
			viol("output-not-a-cut-of-reference", "cli", "the output is not the reference with at most %d pieces removed:\n  got: %q\n  ref: %q", delivered, firstN(string(o.Out.Buf), 400), firstN(string(refOut), 400))
		}
		return res
	}
	segs := segments(o, 1<<30)
	// every delivered interrupt cancels one innermost evaluation some time after it was
	// sent (the trigger goroutine may be scheduled late): it accounts for at most one
	// piece of missing output in the segment where it is sent or in a later one
	// output written after cancellation is suppressed: for a line with a single output value,
	// once an interrupt has been fully processed after the line's first write, at most the one
	// write that had already passed the context check may still arrive
	for _, s := range segs {
		if !isBigLine(s.line.Text) {
			continue
		}
		first := -1 // tag below which a write is not late
		late := 0
		for wi, at := range o.Out.WriteAt {
			if at <= s.retSeq || at >= s.endSeq || wi >= len(o.Out.WriteTag) {
				continue
			}
			if first < 0 {
				first = firstSentAfter(at) - 1
				continue
			}
			if o.Out.WriteTag[wi] > first {
				late++
			}
		}
		res.Probes["single_value_lines"]++
		if late > 0 {
			res.Probes["writes_after_cancel_seen"] += late
		}
		// allowed after the cancellation: the write that had already passed the context check
		// and what the enclosing, not cancelled evaluation prints around the value
		if late >= 5 {
			// the late writes themselves (length and first bytes), for the report
			var lw []string
			off := 0
			for wi, at := range o.Out.WriteAt {
				if wi < len(o.Out.WriteTag) && wi < len(o.Out.WriteLen) {
					if at > s.retSeq && at < s.endSeq && o.Out.WriteTag[wi] > first && len(lw) < 24 && off+o.Out.WriteLen[wi] <= len(o.Out.Buf) {
						lw = append(lw, fmt.Sprintf("%d:%q", o.Out.WriteLen[wi], firstN(string(o.Out.Buf[off:off+o.Out.WriteLen[wi]]), 12)))
					}
					off += o.Out.WriteLen[wi]
				}
			}
			viol("output-after-cancellation", "repl", "line %q has one output value; an interrupt was fully processed after its first write, yet %d further writes of that value reached the terminal (%s)", strings.TrimSpace(s.line.Text), late, strings.Join(lw, " "))
			return res
		}
	}
	used := 0
	for _, s := range segs {
		if s.line.Text == "" {
			continue
		}
		want, known := refSeg[s.line.Text]
		if !known {
			continue
		}
		budget := -used
		for _, in := range ints {
			// (an interrupt absorbed by a completion evaluation cancelled something that writes
			// nothing: it accounts for no missing output)
			if in.ok && !in.absorbed && in.seq < s.endSeq {
				budget++
			}
		}
		res.Probes["segments_checked"]++
		if bytes.Equal(s.out, want) {
			continue
		}
		m := -1
		for k := 1; k <= budget; k++ {
			if removable(want, s.out, k) {
				m = k
				break
			}
		}
		if m < 0 {
			if budget <= 0 {
				viol("unaffected-line-changed", "repl", "line %q: no interrupt can account for it, but its output differs from the reference:\n  got: %q\n  ref: %q", s.line.Text, firstN(string(s.out), 300), firstN(string(want), 300))
			} else {
				viol("output-not-a-cut-of-reference", "repl", "line %q: its output is not the reference with at most %d pieces removed (one per interrupt not yet accounted for):\n  got: %q\n  ref: %q", s.line.Text, budget, firstN(string(s.out), 300), firstN(string(want), 300))
			}
			return res
		}
		used += m
		res.Probes["output_cut_by_interrupt"]++
	}
	if delivered == 0 && len(o.RL) != refReads {
		viol("session-differs-without-interrupt", "repl", "no interrupt was delivered but fq read %d lines instead of %d", len(o.RL), refReads)
	} else if delivered > 0 && delivered == absorbed && len(o.RL) != refReads {
		// the innermost evaluation in progress was the completion's: the REPL level hosting the
		// line editor keeps its context
		viol("completion-interrupt-ended-level", "repl", "every delivered interrupt (%d) arrived and was fully processed while a completion evaluation was in progress, yet fq read %d lines instead of %d", delivered, len(o.RL), refReads)
	}
	return res
}

//go:norace
func replOutLen(o *simos.OS) int { return len(o.Out.Buf) }

//go:norace
func replChanEmpty(o *simos.OS) bool { return len(o.IntCh) == 0 }

//go:norace
func replInc(p *int) { *p++ }

//go:norace
func replEach[T any](l *[]T, f func(*T)) {
	for i := range *l {
		f(&(*l)[i])
	}
}

//go:norace
func replNote[T any](l *[]T, v T) { *l = append(*l, v) }
