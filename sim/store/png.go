package store

import (
	"bytes"
	"compress/zlib"
	"encoding/binary"
	"fmt"
	"hash/crc32"
	"image"
	"image/color"
	"image/png"
	"io"
)

// PNGChunk is one chunk of the stored file.
type PNGChunk struct {
	Type string
	Data []byte
	Off  int // offset of the length field; the chunk ends at Off+12+len(Data)
	CRC  uint32
	// for the hand-framed text chunks
	Keyword, Text string
}

type PNGTruth struct {
	Width, Height int
	ColorType     int // 0 gray, 2 rgb, 3 palette, 6 rgba
	BitDepth      int
	Mode          string
	Level         string
	Palette       [][3]byte
	Alphas        []byte   // tRNS of a paletted image (nil = none)
	Rows          [][]byte // unfiltered scanlines as PNG defines them for this colour type and depth
	Chunks        []PNGChunk
}

// RowBytes and BytesPerPixel (for filtering; at least 1) of the image.
func (p *PNGTruth) RowBytes() int {
	bits := p.BitDepth
	switch p.ColorType {
	case 2:
		bits *= 3
	case 6:
		bits *= 4
	case 4:
		bits *= 2
	}
	return (p.Width*bits + 7) / 8
}

func (p *PNGTruth) BytesPerPixel() int {
	bits := p.BitDepth
	switch p.ColorType {
	case 2:
		bits *= 3
	case 6:
		bits *= 4
	case 4:
		bits *= 2
	}
	if bits < 8 {
		return 1
	}
	return bits / 8
}

var pngLevels = []png.CompressionLevel{png.DefaultCompression, png.NoCompression, png.BestSpeed, png.BestCompression}
var pngLevelNames = []string{"default", "none", "speed", "best"}

func pngDim(g Gen) (int, int) {
	switch g.Intn(10) {
	case 0:
		return 1, 1
	case 1:
		return g.Range(1, 3), g.Range(100, 300) // tall
	case 2:
		return g.Range(100, 400), g.Range(1, 3) // wide
	case 3, 4:
		return g.Range(150, 260), g.Range(150, 260) // several IDAT chunks when incompressible
	}
	return g.Range(1, 40), g.Range(1, 40)
}

// WritePNG stores one image with image/png: gray 8/16, RGB 8, RGBA 8/16,
// paletted 1/2/4/8 bit (with and without transparency), with pixels that are
// noise, flat or gradients, and optionally hand-framed tEXt / zTXt chunks
// (zlib stream written by compress/zlib) inserted after IHDR.
func WritePNG(g Gen) *File {
	f := &File{Format: "png", Name: "f.png", PNG: &PNGTruth{}}
	pt := f.PNG
	w, h := pngDim(g)
	pt.Width, pt.Height = w, h
	p := newPrng(g)
	style := g.Intn(3) // noise, flat, gradient
	val := func(x, y, c int) byte {
		switch style {
		case 0:
			return byte(p.next())
		case 1:
			return byte(17 * (c + 1))
		}
		return byte(x*3 + y*5 + c*64)
	}
	var img image.Image
	r := image.Rect(0, 0, w, h)
	switch g.Intn(7) {
	case 0:
		pt.Mode, pt.ColorType, pt.BitDepth = "gray8", 0, 8
		m := image.NewGray(r)
		for y := 0; y < h; y++ {
			row := make([]byte, w)
			for x := 0; x < w; x++ {
				row[x] = val(x, y, 0)
				m.SetGray(x, y, color.Gray{row[x]})
			}
			pt.Rows = append(pt.Rows, row)
		}
		img = m
	case 1:
		pt.Mode, pt.ColorType, pt.BitDepth = "gray16", 0, 16
		m := image.NewGray16(r)
		for y := 0; y < h; y++ {
			row := make([]byte, 2*w)
			for x := 0; x < w; x++ {
				row[2*x], row[2*x+1] = val(x, y, 0), val(x, y, 1)
				m.SetGray16(x, y, color.Gray16{uint16(row[2*x])<<8 | uint16(row[2*x+1])})
			}
			pt.Rows = append(pt.Rows, row)
		}
		img = m
	case 2:
		pt.Mode, pt.ColorType, pt.BitDepth = "rgb8", 2, 8
		m := image.NewRGBA(r) // opaque: the encoder stores 3 bytes per pixel
		for y := 0; y < h; y++ {
			row := make([]byte, 3*w)
			for x := 0; x < w; x++ {
				for c := 0; c < 3; c++ {
					row[3*x+c] = val(x, y, c)
				}
				m.SetRGBA(x, y, color.RGBA{row[3*x], row[3*x+1], row[3*x+2], 255})
			}
			pt.Rows = append(pt.Rows, row)
		}
		img = m
	case 3:
		pt.Mode, pt.ColorType, pt.BitDepth = "rgba8", 6, 8
		m := image.NewNRGBA(r)
		for y := 0; y < h; y++ {
			row := make([]byte, 4*w)
			for x := 0; x < w; x++ {
				for c := 0; c < 4; c++ {
					row[4*x+c] = val(x, y, c)
				}
				if x == 0 && y == 0 {
					row[3] = 7 // not opaque, or the encoder would drop the alpha channel
				}
				m.SetNRGBA(x, y, color.NRGBA{row[4*x], row[4*x+1], row[4*x+2], row[4*x+3]})
			}
			pt.Rows = append(pt.Rows, row)
		}
		img = m
	case 4:
		pt.Mode, pt.ColorType, pt.BitDepth = "rgba16", 6, 16
		m := image.NewNRGBA64(r)
		for y := 0; y < h; y++ {
			row := make([]byte, 8*w)
			for x := 0; x < w; x++ {
				for c := 0; c < 8; c++ {
					row[8*x+c] = val(x, y, c)
				}
				if x == 0 && y == 0 {
					row[6], row[7] = 0, 9
				}
				o := row[8*x:]
				m.SetNRGBA64(x, y, color.NRGBA64{uint16(o[0])<<8 | uint16(o[1]), uint16(o[2])<<8 | uint16(o[3]), uint16(o[4])<<8 | uint16(o[5]), uint16(o[6])<<8 | uint16(o[7])})
			}
			pt.Rows = append(pt.Rows, row)
		}
		img = m
	default:
		ncol := []int{2, 3, 4, 7, 16, 17, 200, 256}[g.Intn(8)]
		pt.BitDepth = 8
		switch {
		case ncol <= 2:
			pt.BitDepth = 1
		case ncol <= 4:
			pt.BitDepth = 2
		case ncol <= 16:
			pt.BitDepth = 4
		}
		pt.Mode, pt.ColorType = fmt.Sprintf("palette%d", pt.BitDepth), 3
		transparent := g.Bool(1, 3)
		pal := make(color.Palette, ncol)
		lastT := -1
		for i := range pal {
			c := [3]byte{byte(p.next()), byte(p.next()), byte(p.next())}
			a := byte(255)
			if transparent && p.next()%3 == 0 {
				a = byte(p.next() % 255)
				lastT = i
			}
			pt.Palette = append(pt.Palette, c)
			pt.Alphas = append(pt.Alphas, a)
			pal[i] = color.NRGBA{c[0], c[1], c[2], a}
		}
		pt.Alphas = pt.Alphas[:lastT+1] // the encoder stores alphas up to the last non-opaque entry
		if lastT < 0 {
			pt.Alphas = nil
		}
		m := image.NewPaletted(r, pal)
		ppb := 8 / pt.BitDepth
		for y := 0; y < h; y++ {
			row := make([]byte, (w+ppb-1)/ppb)
			for x := 0; x < w; x++ {
				idx := int(val(x, y, 0)) % ncol
				m.SetColorIndex(x, y, uint8(idx))
				row[x/ppb] |= byte(idx) << uint(8-pt.BitDepth-(x%ppb)*pt.BitDepth)
			}
			pt.Rows = append(pt.Rows, row)
		}
		img = m
	}
	li := g.Intn(len(pngLevels))
	pt.Level = pngLevelNames[li]
	var buf bytes.Buffer
	enc := png.Encoder{CompressionLevel: pngLevels[li]}
	if err := enc.Encode(&buf, img); err != nil {
		f.fail("png encode: %v", err)
		return f
	}
	raw := buf.Bytes()
	// split into chunks
	if len(raw) < 8 || string(raw[:8]) != "\x89PNG\r\n\x1a\n" {
		f.fail("png: signature")
		return f
	}
	var chunks []PNGChunk
	for o := 8; o < len(raw); {
		if o+12 > len(raw) {
			f.fail("png: chunk framing at %d", o)
			return f
		}
		l := int(binary.BigEndian.Uint32(raw[o:]))
		if o+12+l > len(raw) {
			f.fail("png: chunk length at %d", o)
			return f
		}
		chunks = append(chunks, PNGChunk{Type: string(raw[o+4 : o+8]), Data: raw[o+8 : o+8+l], CRC: binary.BigEndian.Uint32(raw[o+8+l:])})
		o += 12 + l
	}
	// optional text chunks, hand framed, after IHDR
	var extra []PNGChunk
	for k := g.Intn(4); k > 1; k-- {
		kw := []string{"Title", "Comment", "Software", "Author"}[g.Intn(4)]
		txtb, _ := Payload(g)
		if len(txtb) > 2000 {
			txtb = txtb[:2000]
		}
		txt := printable(txtb)
		if g.Intn(10) == 0 {
			// a very long run of one character: the zlib stream of a zTXt chunk expands beyond 1000:1
			txt = string(bytes.Repeat([]byte{byte('a' + g.Intn(26))}, g.Range(700000, 2200000)))
		}
		if g.Bool(1, 2) && len(txt) < 100000 {
			extra = append(extra, PNGChunk{Type: "tEXt", Data: append(append([]byte(kw), 0), txt...), Keyword: kw, Text: txt})
		} else {
			var zb bytes.Buffer
			zw, _ := zlib.NewWriterLevel(&zb, []int{zlib.DefaultCompression, zlib.BestSpeed, zlib.BestCompression, zlib.NoCompression}[g.Intn(4)])
			zw.Write([]byte(txt))
			zw.Close()
			extra = append(extra, PNGChunk{Type: "zTXt", Data: append(append([]byte(kw), 0, 0), zb.Bytes()...), Keyword: kw, Text: txt})
		}
	}
	for i := range extra {
		c := crc32.NewIEEE()
		c.Write([]byte(extra[i].Type))
		c.Write(extra[i].Data)
		extra[i].CRC = c.Sum32()
	}
	if len(extra) > 0 && len(chunks) > 0 {
		chunks = append(chunks[:1:1], append(extra, chunks[1:]...)...)
	}
	out := append([]byte{}, raw[:8]...)
	f.region(0, 8, -1, KMeta, "")
	for i := range chunks {
		c := &chunks[i]
		c.Off = len(out)
		out = binary.BigEndian.AppendUint32(out, uint32(len(c.Data)))
		out = append(out, c.Type...)
		out = append(out, c.Data...)
		out = binary.BigEndian.AppendUint32(out, c.CRC)
		f.region(c.Off, c.Off+4, i, KHeader, "")
		f.region(c.Off+4, c.Off+8+len(c.Data), i, KPayload, "crc")
		f.region(c.Off+8+len(c.Data), c.Off+12+len(c.Data), i, KChecksum, "crc")
	}
	pt.Chunks = chunks
	f.Data = out
	// independent read back: the stdlib decoder accepts the file and the
	// inflated IDAT stream unfilters to the rows of the model
	if _, err := png.Decode(bytes.NewReader(out)); err != nil {
		f.fail("png read back: %v", err)
	}
	var idat []byte
	for _, c := range chunks {
		if c.Type == "IDAT" {
			idat = append(idat, c.Data...)
		}
	}
	if msg := pt.CheckIDAT(idat); msg != "" {
		f.fail("png model: %s", msg)
	}
	f.Note = fmt.Sprintf("png %dx%d %s level %s %d chunks", w, h, pt.Mode, pt.Level, len(chunks))
	return f
}

func printable(b []byte) string {
	o := make([]byte, len(b))
	for i, c := range b {
		o[i] = 32 + c%95
	}
	return string(o)
}

// CheckIDAT inflates the concatenated IDAT data, undoes the PNG scanline
// filters and compares with the rows that were put in ("" = equal).
func (p *PNGTruth) CheckIDAT(idat []byte) string {
	zr, err := zlib.NewReader(bytes.NewReader(idat))
	if err != nil {
		return "zlib header: " + err.Error()
	}
	inf, err := io.ReadAll(zr)
	if err != nil {
		return "inflate: " + err.Error()
	}
	rb, bpp := p.RowBytes(), p.BytesPerPixel()
	if len(inf) != (rb+1)*p.Height {
		return fmt.Sprintf("inflated size %d, want %d", len(inf), (rb+1)*p.Height)
	}
	prev := make([]byte, rb)
	for y := 0; y < p.Height; y++ {
		ft := inf[y*(rb+1)]
		cur := append([]byte{}, inf[y*(rb+1)+1:(y+1)*(rb+1)]...)
		for i := range cur {
			var a, b, c int
			if i >= bpp {
				a, c = int(cur[i-bpp]), int(prev[i-bpp])
			}
			b = int(prev[i])
			switch ft {
			case 0:
			case 1:
				cur[i] += byte(a)
			case 2:
				cur[i] += byte(b)
			case 3:
				cur[i] += byte((a + b) / 2)
			case 4:
				pa, pb, pc := abs(b-c), abs(a-c), abs(a+b-2*c)
				pr := c
				if pa <= pb && pa <= pc {
					pr = a
				} else if pb <= pc {
					pr = b
				}
				cur[i] += byte(pr)
			default:
				return fmt.Sprintf("row %d: filter type %d", y, ft)
			}
		}
		if !bytes.Equal(cur, p.Rows[y]) {
			return fmt.Sprintf("row %d differs", y)
		}
		prev = cur
	}
	return ""
}

func abs(x int) int {
	if x < 0 {
		return -x
	}
	return x
}
