// Package corpus harvests (sample file, format) pairs from the .fqtest files of
// the working tree: a line `$ fq -d FORMAT ... FILE` names a sample and the
// format it is meant to be decoded with; without -d the probe is meant.
package corpus

import (
	"os"
	"path/filepath"
	"sort"
	"strings"
	"sync"
)

type Sample struct {
	Path   string // absolute
	Rel    string // relative to the repository
	Format string // "" = probe
	Size   int64
	Opts   []string // -o key=value options of the command line (without @file values)
}

var (
	once    sync.Once
	samples []Sample
	data    = map[string][]byte{}
	dataMu  sync.Mutex
)

// Repo is the tree the samples are harvested from (VERIF_REPO overrides /repo).
var Repo = func() string {
	if d := os.Getenv("VERIF_REPO"); d != "" {
		return d
	}
	return "/repo"
}()

func splitArgs(s string) []string {
	var out []string
	var cur strings.Builder
	q := byte(0)
	has := false
	for i := 0; i < len(s); i++ {
		c := s[i]
		switch {
		case q != 0:
			if c == q {
				q = 0
			} else {
				cur.WriteByte(c)
			}
		case c == '\'' || c == '"':
			q = c
			has = true
		case c == ' ' || c == '\t':
			if has || cur.Len() > 0 {
				out = append(out, cur.String())
				cur.Reset()
				has = false
			}
		default:
			cur.WriteByte(c)
		}
	}
	if has || cur.Len() > 0 {
		out = append(out, cur.String())
	}
	return out
}

func load() {
	seen := map[string]bool{}
	filepath.Walk(filepath.Join(Repo, "format"), func(p string, fi os.FileInfo, err error) error {
		if err != nil || fi.IsDir() || !strings.HasSuffix(p, ".fqtest") {
			return nil
		}
		b, err := os.ReadFile(p)
		if err != nil {
			return nil
		}
		dir := filepath.Dir(p)
		for _, line := range strings.Split(string(b), "\n") {
			if !strings.HasPrefix(line, "$ fq ") {
				continue
			}
			args := splitArgs(line[5:])
			format := ""
			var files []string
			var opts []string
			for i := 0; i < len(args); i++ {
				a := args[i]
				if a == "-d" && i+1 < len(args) {
					format = args[i+1]
					i++
					continue
				}
				if a == "-o" && i+1 < len(args) {
					if kv := args[i+1]; !strings.Contains(kv, "=@") && !strings.Contains(kv, "\\") && !strings.Contains(kv, "\t") {
						opts = append(opts, kv)
					}
					i++
					continue
				}
				if strings.HasPrefix(a, "-") {
					continue
				}
				fp := filepath.Join(dir, a)
				if st, err := os.Stat(fp); err == nil && st.Mode().IsRegular() && !strings.HasSuffix(a, ".fqtest") && !strings.HasSuffix(a, ".jq") {
					files = append(files, fp)
				}
			}
			for _, fp := range files {
				key := fp + "|" + format + "|" + strings.Join(opts, ",")
				if seen[key] {
					continue
				}
				seen[key] = true
				st, _ := os.Stat(fp)
				rel, _ := filepath.Rel(Repo, fp)
				samples = append(samples, Sample{Path: fp, Rel: rel, Format: format, Size: st.Size(), Opts: opts})
			}
		}
		return nil
	})
	sort.Slice(samples, func(i, j int) bool {
		if samples[i].Rel != samples[j].Rel {
			return samples[i].Rel < samples[j].Rel
		}
		if samples[i].Format != samples[j].Format {
			return samples[i].Format < samples[j].Format
		}
		return strings.Join(samples[i].Opts, ",") < strings.Join(samples[j].Opts, ",")
	})
	// a sample that some command line decodes only with options (e.g. the zip
	// bomb with uncompress=false) is never used without them
	needs := map[string]bool{}
	for _, s := range samples {
		for _, o := range s.Opts {
			if o == "uncompress=false" {
				needs[s.Path] = true
			}
		}
	}
	var kept []Sample
	for _, s := range samples {
		if needs[s.Path] {
			has := false
			for _, o := range s.Opts {
				if o == "uncompress=false" {
					has = true
				}
			}
			if !has {
				continue
			}
		}
		kept = append(kept, s)
	}
	samples = kept
}

// All returns every harvested pair, in a stable order.
func All() []Sample {
	once.Do(load)
	return samples
}

// MaxSize filters by file size.
func MaxSize(n int64) []Sample {
	var out []Sample
	for _, s := range All() {
		if s.Size <= n {
			out = append(out, s)
		}
	}
	return out
}

// Data returns the bytes of a sample (cached).
func Data(s Sample) []byte {
	dataMu.Lock()
	defer dataMu.Unlock()
	if b, ok := data[s.Path]; ok {
		return b
	}
	b, err := os.ReadFile(s.Path)
	if err != nil {
		b = nil
	}
	data[s.Path] = b
	return b
}
