package netsim

import (
	"bytes"
	"testing"
)

type testTape struct{ s prng }

func (t *testTape) Intn(n int) int {
	if n < 1 {
		n = 1
	}
	return int(t.s.next() % uint64(n))
}

type zeroTape struct{}

func (zeroTape) Intn(int) int { return 0 }

func runOne(seed uint64, p Params) (*World, *Truth, []byte, *CaptureSpec) {
	t := &testTape{s: prng(seed)}
	w := Generate(t, p)
	w.Run()
	if w.Err != "" {
		return w, nil, nil, nil
	}
	s := DrawCaptureSpec(t, p)
	b := WriteCapture(w, s)
	return w, ComputeTruth(w), b, s
}

// The generator's own TCP delivers every stream, the clean configuration
// never loses a byte at the tap, and the same tape gives the same capture.
func TestGeneratorSelfCheck(t *testing.T) {
	var faults [NumFaults]int
	for _, p := range []Params{{}, {Omission: true}, {Wide: true}, {Snaplen: true}, {NoSYN: true}, {Large: true}} {
		holes := 0
		for seed := uint64(1); seed <= 2000; seed++ {
			w, tr, b, _ := runOne(seed, p)
			if w.Err != "" {
				t.Fatalf("params %+v seed %d: %s", p, seed, w.Err)
			}
			for i, f := range w.Faults {
				faults[i] += f
			}
			if len(tr.Conns) != len(w.Conns) {
				t.Fatalf("seed %d: %d of %d connections captured", seed, len(tr.Conns), len(w.Conns))
			}
			holes += tr.Holes
			if !w.MayLoseBytes() && tr.Holes != 0 {
				t.Fatalf("params %+v seed %d: capture lacks stream bytes without tap omission", p, seed)
			}
			if !p.Wide && !p.NoSYN {
				for _, c := range tr.Conns {
					if c.FirstSide != 0 || !c.FirstIsSYN {
						t.Fatalf("seed %d: first captured packet of a connection is not the client's SYN", seed)
					}
				}
			}
			if seed%50 == 0 {
				_, _, b2, _ := runOne(seed, p)
				if !bytes.Equal(b, b2) {
					t.Fatalf("seed %d: not deterministic", seed)
				}
			}
		}
		if (p.Omission || p.Snaplen || p.Large) && holes == 0 {
			t.Fatalf("params %+v never produced a hole", p)
		}
	}
	for i, f := range faults {
		if f == 0 {
			t.Errorf("fault kind %s never fired", FaultNames[i])
		}
	}
	t.Logf("faults: %v", faults)
}

func TestZeroTape(t *testing.T) {
	w := Generate(zeroTape{}, Params{})
	w.Run()
	if w.Err != "" {
		t.Fatal(w.Err)
	}
	if len(w.Tap) < 3 {
		t.Fatalf("zero tape: %d packets", len(w.Tap))
	}
}

func TestChecksums(t *testing.T) {
	// RFC 1071 example
	if s := foldSum(onesSum(0, []byte{0x00, 0x01, 0xf2, 0x03, 0xf4, 0xf5, 0xf6, 0xf7})); s != ^uint16(0xddf2) {
		t.Fatalf("checksum %04x", s)
	}
	// a header from the wild (en.wikipedia.org/wiki/IPv4_header_checksum)
	h := []byte{0x45, 0x00, 0x00, 0x73, 0x00, 0x00, 0x40, 0x00, 0x40, 0x11, 0x00, 0x00, 0xc0, 0xa8, 0x00, 0x01, 0xc0, 0xa8, 0x00, 0xc7}
	if s := foldSum(onesSum(0, h)); s != 0xb861 {
		t.Fatalf("ipv4 checksum %04x", s)
	}
}

func TestFragmenter(t *testing.T) {
	payload := make([]byte, 3000)
	for i := range payload {
		payload[i] = byte(i * 13)
	}
	ip := buildIPv4([4]byte{10, 0, 0, 1}, [4]byte{10, 0, 0, 2}, 77, 0, 64, 0, 6, payload)
	for _, mtu := range []int{68, 69, 75, 576, 1500, 2999, 3019} {
		fr := fragmentIPv4(ip, mtu)
		for i, f := range fr {
			if len(f) > mtu {
				t.Fatalf("mtu %d: fragment of %d bytes", mtu, len(f))
			}
			h, p, err := parseIPv4(f)
			if err != nil {
				t.Fatal(err)
			}
			if h.mf != (i < len(fr)-1) || (h.mf && len(p)%8 != 0) {
				t.Fatalf("mtu %d fragment %d: mf=%v len=%d", mtu, i, h.mf, len(p))
			}
		}
		// any order
		for i, j := 0, len(fr)-1; i < j; i, j = i+1, j-1 {
			fr[i], fr[j] = fr[j], fr[i]
		}
		back, err := reassembleIPv4(fr)
		if err != nil || !bytes.Equal(back, ip) {
			t.Fatalf("mtu %d: reassembly failed: %v", mtu, err)
		}
	}
}
