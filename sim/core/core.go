// Package core is the contract between harnesses, the worker (simw) and the
// controller (simctl).
package core

import (
	"fmt"
	"regexp"
	"sort"
	"strings"

	"github.com/wader/fq/internal/simrt"
)

// Violation is one property violation found in one run.
type Violation struct {
	Property string `json:"property"`
	Oracle   string `json:"oracle"` // violation class: shrinking keeps it fixed
	Key      string `json:"key"`    // what known_findings.json matches on
	Detail   string `json:"detail"`
}

func (v Violation) Class() string { return v.Property + "|" + v.Oracle + "|" + v.Key }

// RunResult is what one simulated run reports.
type RunResult struct {
	Fingerprint  uint64
	Nontrivial   bool
	Faults       map[string]int
	Probes       map[string]int
	Steps        int
	SimNanos     int64
	Switches     int
	Pairs        []uint32
	Violations   []Violation
	Inconclusive string // resource-inconclusive reason, if any
	Sample       any    // human readable description of the case
	Trace        []string
	Extra        map[string]int
}

func NewResult() *RunResult {
	return &RunResult{Faults: map[string]int{}, Probes: map[string]int{}, Extra: map[string]int{}}
}

func (r *RunResult) Violate(prop, oracle, key, detail string) {
	r.Violations = append(r.Violations, Violation{prop, oracle, key, detail})
}

// RunCtx is what a harness gets for one run.
type RunCtx struct {
	T      *simrt.Tape
	Tier   string // quick | thorough
	Config string // harness specific configuration name
	Idx    int
	Seed   uint64 // VERIF_SEED (for systematic walks rotated by the seed)
	Race   bool
	Replay bool
	Want   string // when shrinking/replaying: property whose oracles matter ("" = all)
	Prop   string // the property whose check this run belongs to ("" = unknown)
}

// PropOr is the property a harness that serves several properties with one
// oracle reports under: the one being checked if it is among also, else def.
func (rc *RunCtx) PropOr(def string, also ...string) string {
	for _, a := range also {
		if rc.Prop == a {
			return a
		}
	}
	return def
}

// Harness runs one simulated execution per call.
type Harness interface {
	Name() string
	Run(rc *RunCtx) *RunResult
}

var registry = map[string]Harness{}

func Register(h Harness)      { registry[h.Name()] = h }
func Get(name string) Harness { return registry[name] }
func Names() []string {
	var n []string
	for k := range registry {
		n = append(n, k)
	}
	sort.Strings(n)
	return n
}

// Replay is the replay file format.
type Replay struct {
	Property  string    `json:"property"`
	Harness   string    `json:"harness"`
	Config    string    `json:"config"`
	Tier      string    `json:"tier"`
	Race      bool      `json:"race"`
	Seed      uint64    `json:"seed"`
	Idx       int       `json:"run_index"`
	Tape      []int32   `json:"tape"`
	Violation Violation `json:"violation"`
	Sample    any       `json:"case,omitempty"`
	Trace     []string  `json:"trace,omitempty"`
	Shrunk    string    `json:"shrunk,omitempty"`
	RaceText  string    `json:"race_report,omitempty"`
	// the runs this worker process had executed before the failing one (indices
	// HistFrom, HistFrom+HistStride, ... below Idx): a violation of a property
	// quantified over histories may need the state they left in the process.
	// WithHistory is set by the controller when the failing run alone does not
	// reproduce in a fresh process but does after re-executing that history.
	HistFrom    int  `json:"history_from"`
	HistStride  int  `json:"history_stride"`
	WithHistory bool `json:"with_history,omitempty"`
}

var fqFrameRe = regexp.MustCompile(`^(github\.com/wader/fq/.+)\([^()]*\)\s*$`)

// PanicKey derives (function, class) from a panic value and its stack: the
// innermost frame inside fq (outside simrt and the harness module).
func PanicKey(val, stack string) (fn string, class string) {
	class = PanicClass(val)
	lines := strings.Split(stack, "\n")
	for _, l := range lines {
		l = strings.TrimSpace(l)
		m := fqFrameRe.FindStringSubmatch(l)
		if m == nil {
			continue
		}
		f := m[1]
		if strings.Contains(f, "/internal/simrt") || strings.Contains(f, "/zzverif/") {
			continue
		}
		if strings.Contains(f, "/internal/recoverfn") {
			continue
		}
		// strip generic / closure arguments
		if i := strings.Index(f, "[...]"); i >= 0 {
			f = f[:i] + f[i+5:]
		}
		return strings.TrimPrefix(f, "github.com/wader/fq/"), class
	}
	return "unknown", class
}

// PanicClass buckets a panic value.
func PanicClass(val string) string {
	if strings.HasPrefix(val, "invalid type: ") {
		// gojq met a Go value that is not a jq value
		t := strings.TrimPrefix(val, "invalid type: ")
		if i := strings.IndexByte(t, ' '); i >= 0 {
			t = t[:i]
		}
		return "invalid-type:" + t
	}
	switch {
	case strings.Contains(val, "index out of range"):
		return "index-out-of-range"
	case strings.Contains(val, "slice bounds out of range"):
		return "slice-bounds"
	case strings.Contains(val, "nil pointer dereference"), strings.Contains(val, "nil map"):
		return "nil-dereference"
	case strings.Contains(val, "makeslice"), strings.Contains(val, "negative"):
		return "negative-size"
	case strings.Contains(val, "interface conversion"):
		return "type-assertion"
	case strings.Contains(val, "divide by zero"):
		return "divide-by-zero"
	}
	return "panic"
}

func Sprintf(f string, a ...any) string { return fmt.Sprintf(f, a...) }
