package netsim

// A minimal TCP: three-way handshake, MSS-sized segmentation with tape-chosen
// cut points, a fixed send window, cumulative ACKs (immediate or delayed),
// out-of-order receive buffer, retransmission of the oldest unacknowledged
// segment on a simulated timeout with exponential backoff, FIN close (active,
// passive or never). Sequence space positions are kept as 64 bit offsets from
// the ISN (0 = SYN, 1..len = data, len+1 = FIN) and only become 32 bit wire
// values when a header is written, so ISNs near 2^32 wrap on the wire without
// any special case here.

// Close modes.
const (
	closeActive  = iota // FIN once everything written has been acknowledged
	closePassive        // FIN after the peer's FIN arrived (and own data was acknowledged)
	closeNever          // the capture ends with this direction open
)

var closeNames = [...]string{"active", "passive", "never"}

type segRec struct {
	off uint64 // sequence offset of the first unit
	n   int    // payload bytes
	syn bool
	fin bool
	tx  int // transmissions so far
	// delivered is set by the world when a copy of this segment reached the peer
	delivered bool
}

func (s *segRec) end() uint64 {
	e := s.off + uint64(s.n)
	if s.syn || s.fin {
		e++
	}
	return e
}

type oooSeg struct {
	off  uint64
	data []byte
}

type Endpoint struct {
	conn *Conn
	side int // 0 client, 1 server
	peer *Endpoint
	host *Host
	Port uint16
	ISS  uint32
	Data []byte
	// knobs
	advMSS       int // MSS option announced in the SYN
	segMax       int // largest payload this endpoint puts into one segment
	wnd          int // bytes in flight allowed
	window       uint16
	tsOpt        bool // offers the timestamp option
	sackPerm     bool
	wscale       int // -1 = not offered
	closeMode    int
	finWithData  bool
	ackEvery     int
	delAck       int64
	rto0         int64
	smallCuts    bool // often cut segments below segMax
	reseg        bool // retransmissions may use different boundaries
	eagerFin     bool // wide only: FIN right after the last data without waiting for the ACKs
	jumbo        bool // segments of 30..64 KiB
	forceHoldSeg int  // jumbo: index into segs of the data segment that is held back at the tap ...
	forceHold    int  // ... until this many later packets of the direction have passed
	payStyle     int
	flow         uint32 // IPv6 flow label
	extKind      uint8  // IPv6: next header value of the extension header in front of TCP ...
	ext          []byte // ... and the header itself (nil = none)
	// application
	appAvail   int   // bytes of Data written by the application so far
	appChunks  []int // further writes: sizes
	appDelays  []int64
	appStarted bool
	startAfter int // server: start writing after this many bytes were received
	// send state
	synSent     bool
	established bool
	sndUna      uint64
	sndNxt      uint64
	segs        []segRec
	finSent     bool
	rtoGen      int
	rtoArmed    bool
	rto         int64
	// receive state
	irs        uint32
	irsValid   bool
	rcvNxt     uint64
	ooo        []oooSeg
	finOff     uint64
	finSeen    bool
	peerFin    bool
	Rcvd       []byte
	ackPending int
	delAckGen  int
	tsRecent   uint32
	tsOK       bool // both sides offered timestamps
}

// Addr is the endpoint's address in the family of its connection.
func (e *Endpoint) Addr() Addr {
	if e.conn.V6 {
		return addr6(e.host.IP6)
	}
	return addr4(e.host.IP)
}

// ExtKind reports the IPv6 extension header this endpoint puts in front of
// TCP: 0 = hop-by-hop, 60 = destination options, -1 = none.
func (e *Endpoint) ExtKind() int {
	if e.ext == nil {
		return -1
	}
	return int(e.extKind)
}

func (e *Endpoint) dataEnd() uint64 { return 1 + uint64(len(e.Data)) }

// unwrap turns a 32 bit wire value into a 64 bit offset from base, choosing
// the candidate nearest to near.
func unwrap(v, base uint32, near uint64) (uint64, bool) {
	d := int32(v - (base + uint32(near)))
	o := int64(near) + int64(d)
	if o < 0 {
		return 0, false
	}
	return uint64(o), true
}

func (e *Endpoint) options(syn bool, w *World) []byte {
	var o []byte
	if syn {
		o = append(o, 2, 4, byte(e.advMSS>>8), byte(e.advMSS))
		if e.sackPerm {
			o = append(o, 4, 2)
		}
		if e.wscale >= 0 {
			o = append(o, 3, 3, byte(e.wscale))
		}
		if e.tsOpt && (e.side == 0 || e.tsOK) {
			tv := uint32(w.now/1000000) + uint32(e.ISS)
			o = append(o, 8, 10, byte(tv>>24), byte(tv>>16), byte(tv>>8), byte(tv), byte(e.tsRecent>>24), byte(e.tsRecent>>16), byte(e.tsRecent>>8), byte(e.tsRecent))
		}
	} else if e.tsOK {
		tv := uint32(w.now/1000000) + uint32(e.ISS)
		o = append(o, 1, 1, 8, 10, byte(tv>>24), byte(tv>>16), byte(tv>>8), byte(tv), byte(e.tsRecent>>24), byte(e.tsRecent>>16), byte(e.tsRecent>>8), byte(e.tsRecent))
	}
	for len(o)%4 != 0 {
		o = append(o, 1) // NOP padding
	}
	return o
}

// emit builds and transmits one segment.
func (e *Endpoint) emit(w *World, off uint64, n int, flags uint8, seg int) {
	var ack uint32
	if e.irsValid {
		flags |= FlagACK
		ack = e.irs + uint32(e.rcvNxt)
		e.ackPending = 0
		e.delAckGen++
	}
	var payload []byte
	dataOff := 0
	if n > 0 {
		dataOff = int(off - 1)
		payload = e.Data[dataOff : dataOff+n]
	}
	seq := e.ISS + uint32(off)
	p := &packet{from: e, flags: flags, seqOff: off, dataOff: dataOff, payLen: n, seg: seg}
	if e.conn.V6 {
		tcp := buildTCP6(e.host.IP6, e.peer.host.IP6, e.Port, e.peer.Port, seq, ack, flags, e.window, e.options(flags&FlagSYN != 0, w), payload)
		p.raw = buildIPv6(e.host.IP6, e.peer.host.IP6, e.host.tos, e.flow, e.host.ttl, nhTCP, e.extKind, e.ext, tcp)
	} else {
		tcp := buildTCP(e.host.IP, e.peer.host.IP, e.Port, e.peer.Port, seq, ack, flags, e.window, e.options(flags&FlagSYN != 0, w), payload)
		p.raw = buildIPv4(e.host.IP, e.peer.host.IP, e.host.nextID(), w.ipFlags, e.host.ttl, e.host.tos, 6, tcp)
	}
	w.transmit(p)
}

func (e *Endpoint) armRTO(w *World) {
	e.rtoGen++
	e.rtoArmed = true
	gen := e.rtoGen
	w.at(w.now+e.rto, func() { e.onRTO(w, gen) })
}

func (e *Endpoint) cancelRTO() {
	e.rtoGen++
	e.rtoArmed = false
}

func (e *Endpoint) sendSYN(w *World) {
	flags := uint8(FlagSYN)
	e.segs = append(e.segs, segRec{off: 0, syn: true, tx: 1})
	e.synSent = true
	e.sndNxt = 1
	e.emit(w, 0, 0, flags, 0)
	e.armRTO(w)
}

func (e *Endpoint) sendAck(w *World) {
	if !e.irsValid {
		return
	}
	e.emit(w, e.sndNxt, 0, 0, -1)
}

// appWrite makes the next chunk of Data available and schedules the one after.
func (e *Endpoint) appStart(w *World) {
	if e.appStarted {
		return
	}
	e.appStarted = true
	e.appNext(w)
}

func (e *Endpoint) appNext(w *World) {
	if len(e.appChunks) == 0 {
		return
	}
	e.appAvail += e.appChunks[0]
	e.appChunks = e.appChunks[1:]
	if len(e.appChunks) > 0 {
		d := e.appDelays[0]
		e.appDelays = e.appDelays[1:]
		w.at(w.now+d, func() {
			e.appNext(w)
			e.trySend(w)
		})
	}
}

func (e *Endpoint) appDone() bool { return e.appStarted && len(e.appChunks) == 0 }

func (e *Endpoint) wantClose() bool {
	switch e.closeMode {
	case closeActive:
		return e.appDone()
	case closePassive:
		return e.appDone() && e.peerFin
	}
	return false
}

// trySend sends what window and application allow, then possibly the FIN.
func (e *Endpoint) trySend(w *World) {
	if !e.established {
		return
	}
	if e.side == 1 && !e.appStarted && len(e.peer.Data) >= 0 && len(e.Rcvd) >= e.startAfter {
		e.appStart(w)
	}
	limit := 1 + uint64(e.appAvail)
	for e.sndNxt < limit && !e.finSent {
		inflight := int(e.sndNxt - e.sndUna)
		if inflight >= e.wnd {
			break
		}
		n := e.segMax
		if rem := int(limit - e.sndNxt); n > rem {
			n = rem
		}
		if room := e.wnd - inflight; n > room {
			if inflight > 0 {
				break // no silly small segments: wait for the window to open
			}
			n = room
		}
		if e.smallCuts && n > 1 && len(e.segs) < 48 && chance(w.c, 1, 3) {
			n = 1 + w.c.Intn(n)
		}
		flags := uint8(0)
		last := e.sndNxt+uint64(n) == e.dataEnd()
		if last || e.sndNxt+uint64(n) == limit {
			flags |= FlagPSH
		}
		fin := false
		if last && e.finWithData && e.closeMode == closeActive && e.appDone() && (e.sndUna == e.sndNxt || e.eagerFin) {
			fin = true
			flags |= FlagFIN
		}
		e.segs = append(e.segs, segRec{off: e.sndNxt, n: n, fin: fin, tx: 1})
		off := e.sndNxt
		e.sndNxt += uint64(n)
		if fin {
			e.sndNxt++
			e.finSent = true
		}
		e.emit(w, off, n, flags, len(e.segs)-1)
		if !e.rtoArmed {
			e.armRTO(w)
		}
	}
	if !e.finSent && e.wantClose() && e.sndNxt == e.dataEnd() && (e.sndUna == e.sndNxt || e.eagerFin) {
		e.segs = append(e.segs, segRec{off: e.sndNxt, fin: true, tx: 1})
		off := e.sndNxt
		e.sndNxt++
		e.finSent = true
		e.emit(w, off, 0, FlagFIN, len(e.segs)-1)
		if !e.rtoArmed {
			e.armRTO(w)
		}
	}
}

func (e *Endpoint) onRTO(w *World, gen int) {
	if gen != e.rtoGen || !e.rtoArmed {
		return
	}
	e.rtoArmed = false
	if e.sndUna >= e.sndNxt {
		return
	}
	// the oldest segment that is not fully acknowledged
	si := -1
	for i := range e.segs {
		if e.segs[i].end() > e.sndUna {
			si = i
			break
		}
	}
	if si < 0 {
		return
	}
	s := &e.segs[si]
	s.tx++
	w.Faults[FRetx]++
	if s.delivered {
		w.Faults[FSpuriousRetx]++
	}
	flags := uint8(0)
	switch {
	case s.syn:
		flags = FlagSYN
		e.emit(w, 0, 0, flags, si)
	default:
		off, n := s.off, s.n
		fin := s.fin
		if off < e.sndUna { // partly acknowledged (only after a re-segmented retransmission)
			n -= int(e.sndUna - off)
			off = e.sndUna
		}
		if e.reseg && n > 0 && !fin && chance(w.c, 1, 2) {
			// cover a different range: up to segMax bytes from the first
			// unacknowledged byte, across the original boundaries, or only
			// the first part of the segment
			sentData := e.sndNxt
			if e.finSent {
				sentData--
			}
			if w.c.Intn(2) == 0 && n > 1 {
				n = 1 + w.c.Intn(n-1)
			} else {
				n = e.segMax
				if m := int(sentData - off); n > m {
					n = m
				}
			}
			w.Faults[FRetxReseg]++
			si = -1
		}
		if fin {
			flags |= FlagFIN
		}
		if n > 0 {
			flags |= FlagPSH
		}
		e.emit(w, off, n, flags, si)
	}
	if e.rto < e.rto0*16 {
		e.rto *= 2
	}
	e.armRTO(w)
}

// input processes one received segment.
func (e *Endpoint) input(w *World, h tcpHdr, payload []byte) {
	syn := h.flags&FlagSYN != 0
	ackf := h.flags&FlagACK != 0
	needAck := false
	ackNow := false
	e.noteTS(h)
	switch {
	case e.side == 0 && e.synSent && !e.established:
		if !(syn && ackf && h.ack == e.ISS+1) {
			return
		}
		e.irs, e.irsValid, e.rcvNxt = h.seq, true, 1
		e.tsOK = e.tsOpt && hasOption(h.opts, 8)
		e.sndUna = 1
		e.established = true
		e.rto = e.rto0
		e.cancelRTO()
		e.sendAck(w)
		e.appStart(w)
		e.trySend(w)
		return
	case e.side == 1 && !e.synSent:
		if !(syn && !ackf) {
			return
		}
		e.irs, e.irsValid, e.rcvNxt = h.seq, true, 1
		e.tsOK = e.tsOpt && hasOption(h.opts, 8)
		e.segs = append(e.segs, segRec{off: 0, syn: true, tx: 1})
		e.synSent = true
		e.sndNxt = 1
		e.emit(w, 0, 0, FlagSYN, 0)
		e.armRTO(w)
		return
	}
	if syn {
		// a retransmitted SYN or SYN-ACK
		if e.side == 1 && !e.established {
			e.segs[0].tx++
			e.emit(w, 0, 0, FlagSYN, 0)
		} else {
			e.sendAck(w)
		}
		return
	}
	if ackf {
		if a, ok := unwrap(h.ack, e.ISS, e.sndUna); ok && a > e.sndUna && a <= e.sndNxt {
			e.sndUna = a
			e.rto = e.rto0
			if e.sndUna >= e.sndNxt {
				e.cancelRTO()
			} else {
				e.armRTO(w)
			}
			if !e.established && e.side == 1 && a >= 1 {
				e.established = true
			}
		}
	}
	if !e.established {
		return
	}
	off, ok := unwrap(h.seq, e.irs, e.rcvNxt)
	if !ok {
		return
	}
	if h.flags&FlagFIN != 0 {
		e.finOff, e.finSeen = off+uint64(len(payload)), true
		needAck, ackNow = true, true
	}
	if len(payload) > 0 {
		needAck = true
		end := off + uint64(len(payload))
		if end <= e.rcvNxt {
			ackNow = true // duplicate
		} else {
			if off < e.rcvNxt {
				payload = payload[e.rcvNxt-off:]
				off = e.rcvNxt
			}
			if off > e.rcvNxt {
				ackNow = true // out of order
			}
			e.store(off, payload)
		}
	}
	// deliver what is contiguous
	for len(e.ooo) > 0 && e.ooo[0].off <= e.rcvNxt {
		s := e.ooo[0]
		e.ooo = e.ooo[1:]
		if end := s.off + uint64(len(s.data)); end > e.rcvNxt {
			e.Rcvd = append(e.Rcvd, s.data[e.rcvNxt-s.off:]...)
			e.rcvNxt = end
		}
		if len(e.ooo) > 0 {
			ackNow = true
		}
	}
	if e.finSeen && !e.peerFin && e.rcvNxt == e.finOff {
		e.rcvNxt++
		e.peerFin = true
	}
	before := e.ackPending
	if needAck {
		e.ackPending++
	}
	e.trySend(w) // may piggyback the acknowledgement
	if needAck && e.ackPending > before {
		if ackNow || e.ackPending >= e.ackEvery {
			e.sendAck(w)
		} else {
			e.delAckGen++
			gen := e.delAckGen
			w.at(w.now+e.delAck, func() {
				if gen == e.delAckGen && e.ackPending > 0 {
					e.sendAck(w)
				}
			})
		}
	}
}

func (e *Endpoint) noteTS(h tcpHdr) {
	o := h.opts
	for len(o) > 0 {
		switch o[0] {
		case 0:
			return
		case 1:
			o = o[1:]
			continue
		}
		if len(o) < 2 || int(o[1]) < 2 || int(o[1]) > len(o) {
			return
		}
		if o[0] == 8 && o[1] == 10 {
			e.tsRecent = get32(o[2:])
		}
		o = o[o[1]:]
	}
}

func hasOption(o []byte, kind byte) bool {
	for len(o) > 0 {
		switch o[0] {
		case 0:
			return false
		case 1:
			o = o[1:]
			continue
		}
		if len(o) < 2 || int(o[1]) < 2 || int(o[1]) > len(o) {
			return false
		}
		if o[0] == kind {
			return true
		}
		o = o[o[1]:]
	}
	return false
}

// store inserts a segment into the out-of-order list (sorted by offset).
func (e *Endpoint) store(off uint64, data []byte) {
	i := 0
	for i < len(e.ooo) && e.ooo[i].off <= off {
		i++
	}
	e.ooo = append(e.ooo, oooSeg{})
	copy(e.ooo[i+1:], e.ooo[i:])
	e.ooo[i] = oooSeg{off: off, data: data}
}
