package harness

import (
	"bytes"
	"encoding/json"
	"fmt"
	"os"
	"strings"

	"github.com/wader/fq/internal/simrt"
	"github.com/wader/fq/zzverif/sim/core"
	"github.com/wader/fq/zzverif/sim/corpus"
	"github.com/wader/fq/zzverif/sim/simos"
	"github.com/wader/gojq"
)

// H-SYS / C17: the command line contract (DESIGN §3 C17). Real: the whole of
// fq through interp.Main. Stub: simulated OS (files that are decodable,
// undecodable, missing, directories, unreadable, failing with EIO), benign
// disk behaviour.

func init() { core.Register(&hcli{}) }

type hcli struct{}

func (*hcli) Name() string { return "hcli" }

const (
	inJSON    = iota // decodable JSON text
	inUndec          // garbage: undecodable under the probe
	inMissing        // does not exist
	inDir            // a directory
	inEACCES         // open fails: permission denied
	inEIO            // open fails with EIO (weak oracle only)
	inBin            // a small decodable binary sample (png): displayed as a tree dump
)

var inKindNames = []string{"json", "undecodable", "missing", "directory", "eacces", "eio", "png"}

var cliBinSample = func() []byte {
	b, err := os.ReadFile(corpus.Repo + "/format/png/testdata/4x4_palette.png")
	if err != nil {
		return nil
	}
	return b
}()

type cliInput struct {
	name string
	kind int
	text string // JSON text for inJSON
	tail string // what follows the text in the file: a newline, or nothing
	val  any    // parsed value
}

var jsonTexts = []string{
	`{"a":{"b":1}}`, `[1,2]`, `"str"`, `42`, `{"a":[1,{"b":null}],"z":"x"}`, `[]`, `{}`, `[[1],[2,3]]`, `-7`, `"a b"`, `[true,false,null]`, `{"k":"v"}`,
}

type cliProg struct {
	src     string
	compile bool
	// errOn reports whether the program raises a runtime error on this input value
	errOn func(v any) bool
	// values: the program is in the family whose outputs are compared with the reference engine
	values bool
	// partial: outputs before the error are still expected
	usesInputs bool
}

func isArr(v any) bool { _, ok := v.([]any); return ok }

var cliProgs = []cliProg{
	{src: `.`, compile: true, errOn: func(any) bool { return false }, values: true},
	{src: `type`, compile: true, errOn: func(any) bool { return false }, values: true},
	{src: `tojson`, compile: true, errOn: func(any) bool { return false }, values: true},
	{src: `[.[]?]`, compile: true, errOn: func(any) bool { return false }, values: true},
	{src: `., 1`, compile: true, errOn: func(any) bool { return false }, values: true},
	{src: `[., "x"] | tostring`, compile: true, errOn: func(any) bool { return false }, values: true},
	{src: `if type=="array" then error("arr") else . end`, compile: true, errOn: isArr, values: true},
	{src: `error("boom")`, compile: true, errOn: func(any) bool { return true }, values: true},
	{src: `1, error("x"), 2`, compile: true, errOn: func(any) bool { return true }, values: true},
	// a program that starts like a file reference, error values that are not strings
	{src: `@base64`, compile: true, errOn: func(any) bool { return false }, values: true},
	{src: `@json "v=\(.)"`, compile: true, errOn: func(any) bool { return false }, values: true},
	{src: `error(null)`, compile: true, errOn: func(any) bool { return true }, values: true},
	{src: `error({a: 1})`, compile: true, errOn: func(any) bool { return true }, values: true},
	{src: `if type=="array" then error(false) else . end`, compile: true, errOn: isArr, values: true},
	{src: `(`, compile: false},
	{src: `.a |`, compile: false},
	{src: `1 +`, compile: false},
	{src: `[inputs]`, compile: true, errOn: func(any) bool { return false }, usesInputs: true},
}

type cliCase struct {
	inputs        []cliInput
	prog          cliProg
	nullIn        bool
	raw           bool
	join          bool
	compact       bool
	slurp         bool
	rawInput      bool
	raw0          bool
	raw0Alias     bool
	decode        string // "", "probe", "json"
	ddashAt       int
	decodeInGroup bool // -d rides at the end of a combined short flag group
	decodeEq      bool // =VALUE form
	args          [][2]string
	argjson       [][2]string
	rawfile       [][2]string // name, path
	argErr        string      // "", "unknown-flag", "missing-value", "bad-argjson", "rawfile-missing", "fromfile-missing"
	ddash         bool
	combine       bool // combine short flags
	mono          bool
	benign        bool
}

func (c *cliCase) argv(inputs []cliInput) []string {
	a := []string{"fq"}
	var shorts []string
	var flags []string
	short := func(s string) {
		if c.combine {
			shorts = append(shorts, s)
		} else {
			flags = append(flags, "-"+s)
		}
	}
	if c.nullIn {
		short("n")
	}
	if c.raw {
		short("r")
	}
	if c.join {
		short("j")
	}
	if c.compact {
		short("c")
	}
	if c.slurp {
		short("s")
	}
	if c.rawInput {
		short("R")
	}
	if c.mono {
		short("M")
	}
	decodeDone := false
	if len(shorts) > 0 {
		g := "-" + strings.Join(shorts, "")
		if c.decodeInGroup && c.decode != "" {
			// a value-taking short flag at the end of a group, in both documented forms
			if c.decodeEq {
				g += "d=" + c.decode
				flags = append(flags, g)
			} else {
				g += "d"
				flags = append(flags, g, c.decode)
			}
			decodeDone = true
		} else {
			flags = append(flags, g)
		}
	}
	if c.raw0 {
		if c.raw0Alias {
			flags = append(flags, "--nul-output") // the documented alias spelling
		} else {
			flags = append(flags, "--raw-output0")
		}
	}
	if !decodeDone {
		switch c.decode {
		case "probe":
			if c.decodeEq {
				flags = append(flags, "-d=probe")
			} else {
				flags = append(flags, "-d", "probe")
			}
		case "json":
			if c.decodeEq {
				flags = append(flags, "--decode=json")
			} else {
				flags = append(flags, "--decode", "json")
			}
		}
	}
	for _, kv := range c.args {
		flags = append(flags, "--arg", kv[0], kv[1])
	}
	for _, kv := range c.argjson {
		flags = append(flags, "--argjson", kv[0], kv[1])
	}
	for _, kv := range c.rawfile {
		flags = append(flags, "--raw-file", kv[0], kv[1])
	}
	switch c.argErr {
	case "unknown-flag":
		flags = append(flags, "--no-such-flag")
	case "missing-value":
		flags = append(flags, "--arg", "onlyname")
		// must be last so that it really lacks a value
		a = append(a, flags...)
		return a
	case "fromfile-missing":
		flags = append(flags, "-f", "nosuch.jq")
		a = append(a, flags...)
		for _, in := range inputs {
			a = append(a, in.name)
		}
		return a
	}
	a = append(a, flags...)
	pos := []string{c.prog.src}
	for _, in := range inputs {
		pos = append(pos, in.name)
	}
	for i, p := range pos {
		// "--" ends option parsing wherever it stands: before the program or between positionals
		if c.ddash && i == c.ddashAt%len(pos) {
			a = append(a, "--")
		}
		a = append(a, p)
	}
	return a
}

func (c *cliCase) newOS(t *simrt.Tape, inputs []cliInput) *simos.OS {
	o := simos.New(t)
	o.StdinTerm = true
	o.Disk.Benign = c.benign
	o.AddFile("good.txt", simos.Regular, []byte("file content\n"))
	for _, in := range c.inputs { // every file exists in every run: only argv differs
		switch in.kind {
		case inJSON:
			o.AddFile(in.name, simos.Regular, []byte(in.text+in.tail))
		case inUndec:
			o.AddFile(in.name, simos.Regular, []byte("\x00\x01\x02garbage\xff\xfe\x00\x00\x13\x37"))
		case inMissing:
		case inDir:
			o.AddFile(in.name, simos.Dir, nil)
		case inEACCES:
			o.AddFile(in.name, simos.EACCES, nil)
		case inEIO:
			o.AddFile(in.name, simos.EIOOpen, nil)
		case inBin:
			o.AddFile(in.name, simos.Regular, cliBinSample)
		}
	}
	o.ArgsV = c.argv(inputs)
	return o
}

func combineStatus(a, b int) int {
	rank := func(s int) int {
		switch s {
		case 2:
			return 3
		case 4:
			return 2
		case 5:
			return 1
		}
		return 0
	}
	if rank(b) > rank(a) {
		return b
	}
	return a
}

func (*hcli) Run(rc *core.RunCtx) *core.RunResult {
	res := core.NewResult()
	t := rc.T
	c := &cliCase{}
	// inputs
	nIn := t.Intn(5)
	for i := 0; i < nIn; i++ {
		k := inJSON
		switch t.Intn(10) {
		case 0, 1:
			k = inUndec
		case 2:
			k = inMissing
		case 3:
			k = inDir
		case 4:
			k = inEACCES
		case 5:
			if t.Intn(3) == 0 {
				k = inEIO
			}
		case 6:
			if cliBinSample != nil {
				k = inBin
			}
		}
		in := cliInput{name: fmt.Sprintf("in%d.%s", i, inKindNames[k]), kind: k}
		if k == inJSON {
			in.text = jsonTexts[t.Intn(len(jsonTexts))]
			in.tail = "\n"
			switch t.Intn(8) {
			case 0, 1:
				in.tail = "" // no newline at the end of the file: in raw input mode its last line runs on into the next file
			case 2:
				in.tail = "\r\n" // CRLF: like jq, raw input splits at the line feed only and keeps the carriage return
			}
			json.Unmarshal([]byte(in.text), &in.val)
		}
		c.inputs = append(c.inputs, in)
	}
	c.prog = cliProgs[t.Intn(len(cliProgs))]
	if t.Intn(5) == 0 {
		c.prog = cliProgs[6] // raises on some inputs only: the status must remember it
	}
	c.nullIn = t.Intn(5) == 0
	c.raw = t.Intn(4) == 0
	c.join = t.Intn(6) == 0
	c.compact = t.Intn(2) == 0
	c.slurp = t.Intn(6) == 0
	c.rawInput = t.Intn(5) == 0
	c.raw0 = t.Intn(10) == 0
	c.raw0Alias = c.raw0 && t.Intn(3) == 0
	c.decode = []string{"", "", "", "probe", "json"}[t.Intn(5)]
	c.decodeInGroup = t.Intn(3) == 0
	c.decodeEq = t.Intn(2) == 0
	c.ddash = t.Intn(4) == 0
	c.ddashAt = 0
	if t.Intn(2) == 0 {
		c.ddashAt = t.Intn(5)
	}
	c.combine = t.Intn(2) == 0
	c.mono = t.Intn(6) == 0
	c.benign = t.Intn(2) == 0
	if t.Intn(4) == 0 {
		c.args = append(c.args, [2]string{"x", []string{"1", "a b", ""}[t.Intn(3)]})
	}
	if t.Intn(5) == 0 {
		c.argjson = append(c.argjson, [2]string{"y", []string{`{"k":2}`, `[1]`, `"s"`}[t.Intn(3)]})
	}
	if t.Intn(6) == 0 {
		c.rawfile = append(c.rawfile, [2]string{"f", "good.txt"})
	}
	switch t.Intn(14) {
	case 0:
		c.argErr = "unknown-flag"
	case 1:
		c.argErr = "missing-value"
	case 2:
		c.argErr = "bad-argjson"
		c.argjson = append(c.argjson, [2]string{"bad", `{bad`})
	case 3:
		c.argErr = "rawfile-missing"
		c.rawfile = append(c.rawfile, [2]string{"g", "nosuchfile.txt"})
	case 4:
		c.argErr = "fromfile-missing"
	}
	if nIn == 0 && !c.nullIn {
		// without inputs fq reads standard input: out of scope here
		c.nullIn = true
	}
	if c.prog.usesInputs && nIn == 0 {
		c.prog = cliProgs[0] // input/inputs without files would read standard input
	}
	if c.prog.usesInputs {
		c.nullIn = true
		c.slurp = false
	}
	if c.rawInput && c.decode == "json" {
		c.decode = ""
	}
	if c.raw0 && c.join {
		// which of the two wins is not part of the contract
		c.join = false
	}

	full := runFQ(t, c.newOS(t, c.inputs), fqOpts{Policy: -1, Fine: t.Intn(4) == 0})
	res.Fingerprint = fnv64(0, []byte(strings.Join(c.argv(c.inputs), "\x00")))
	for _, in := range c.inputs {
		res.Fingerprint = fnv64(res.Fingerprint, []byte(in.text))
	}
	res.Nontrivial = true
	descr := map[string]any{"argv": c.argv(c.inputs), "exit": full.Res.Exit, "benign_disk": c.benign}
	res.Sample = descr
	res.Steps += full.Stats.Steps
	res.Probes["arg_error_cases"] += b2i(c.argErr != "")
	res.Probes["compile_error_cases"] += b2i(!c.prog.compile)
	res.Probes["multi_input_cases"] += b2i(len(c.inputs) >= 2)
	for _, in := range c.inputs {
		res.Probes["input_"+inKindNames[in.kind]]++
	}
	if !full.abnormal(res, "C17", "fq "+strings.Join(c.argv(c.inputs), " ")) {
		return res
	}
	viol := func(oracle, key, f string, a ...any) {
		res.Violate("C17", oracle, key, fmt.Sprintf(f, a...)+fmt.Sprintf("\n  argv: %q\n  exit: %d\n  stdout: %q\n  stderr: %q", c.argv(c.inputs), full.Res.Exit, trunc(full.Res.Stdout), firstN(string(full.Res.Stderr), 400)))
	}

	// ---- oracle 1: exit status model -------------------------------------
	hasEIO := false
	consumed := c.inputs
	if c.nullIn && !c.prog.usesInputs {
		consumed = nil
	}
	for _, in := range consumed {
		if in.kind == inEIO {
			hasEIO = true
		}
	}
	want := -1
	switch {
	case c.argErr != "":
		want = 2
	case !c.prog.compile:
		want = 3
	default:
		want = 0
		fileErr, undec := false, false
		var good []any
		for _, in := range consumed {
			switch in.kind {
			case inMissing, inDir, inEACCES:
				fileErr = true
			case inUndec:
				if c.rawInput {
					good = append(good, "raw")
				} else if c.decode == "json" {
					// a single forced format gives a tree with the error attached: decodable
					good = append(good, map[string]any{})
				} else {
					undec = true
				}
			case inJSON:
				if c.rawInput {
					good = append(good, in.text+in.tail)
				} else {
					good = append(good, in.val)
				}
			case inBin:
				if c.rawInput {
					good = append(good, "raw")
				} else if c.decode == "json" {
					good = append(good, map[string]any{})
				} else {
					good = append(good, map[string]any{"png": true})
				}
			}
		}
		// runtime errors over what the program is evaluated on
		rt := false
		switch {
		case c.prog.usesInputs:
		case c.nullIn:
			rt = c.prog.errOn(nil)
		case c.slurp && c.rawInput:
			rt = c.prog.errOn("slurped raw string")
		case c.slurp:
			rt = c.prog.errOn(good)
		default:
			for _, v := range good {
				if c.prog.errOn(v) {
					rt = true
				}
			}
		}
		switch {
		case fileErr:
			want = 2
		case undec:
			want = 4
		case rt:
			want = 5
		}
	}
	if hasEIO && c.argErr == "" && c.prog.compile {
		if full.Res.Exit == 0 {
			viol("exit-status", "eio-input-exit-0", "an input failed with EIO at open but the exit status is 0")
		}
	} else if full.Res.Exit != want {
		viol("exit-status", fmt.Sprintf("want-%d-got-%d", want, full.Res.Exit), "exit status %d, the contract says %d", full.Res.Exit, want)
	}
	if full.Res.Exit != 0 && len(full.Res.Stderr) == 0 {
		viol("silent-failure", fmt.Sprintf("exit-%d", full.Res.Exit), "non-zero exit status without anything on standard error")
	}
	if len(res.Violations) > 0 {
		return res
	}

	// ---- oracle 2: independence of inputs --------------------------------
	// raw input (-R) is excluded: like jq it treats all files as one stream of
	// lines, so a file without a final newline runs into the next one by design
	indep := c.argErr == "" && c.prog.compile && !c.nullIn && !c.slurp && !c.rawInput && len(c.inputs) >= 1
	if indep {
		var so, se []byte
		st := 0
		for _, in := range c.inputs {
			o1 := c.newOS(t, []cliInput{in})
			r1 := runFQ(t, o1, fqOpts{Policy: simrt.PolSequential})
			res.Steps += r1.Stats.Steps
			if !r1.abnormal(res, "C17", "single-input run") {
				return res
			}
			so = append(so, r1.Res.Stdout...)
			se = append(se, r1.Res.Stderr...)
			st = combineStatus(st, r1.Res.Exit)
		}
		res.Probes["independence_checked"]++
		if !bytes.Equal(so, full.Res.Stdout) {
			viol("inputs-not-independent", "stdout", "standard output of the %d-input run differs from the concatenation of the single-input runs:\n  together: %q\n  alone:    %q", len(c.inputs), firstN(string(full.Res.Stdout), 600), firstN(string(so), 600))
		} else if !bytes.Equal(se, full.Res.Stderr) {
			viol("inputs-not-independent", "stderr", "standard error of the %d-input run differs from the concatenation of the single-input runs:\n  together: %q\n  alone:    %q", len(c.inputs), firstN(string(full.Res.Stderr), 600), firstN(string(se), 600))
		} else if st != full.Res.Exit && !hasEIO {
			viol("inputs-not-independent", "status", "exit status %d of the %d-input run is not the combination %d of the single-input statuses", full.Res.Exit, len(c.inputs), st)
		}
	}
	if c.argErr == "" && c.prog.compile && !c.nullIn && c.slurp && !c.rawInput {
		// slurp: equals the slurp of the good inputs only
		var goodIn []cliInput
		for _, in := range c.inputs {
			if in.kind == inJSON || in.kind == inBin || (in.kind == inUndec && c.decode == "json") {
				goodIn = append(goodIn, in)
			}
		}
		if len(goodIn) != len(c.inputs) && len(goodIn) > 0 {
			o1 := c.newOS(t, goodIn)
			r1 := runFQ(t, o1, fqOpts{Policy: simrt.PolSequential})
			if !r1.abnormal(res, "C17", "slurp of good inputs") {
				return res
			}
			res.Probes["slurp_independence_checked"]++
			if !bytes.Equal(r1.Res.Stdout, full.Res.Stdout) {
				viol("inputs-not-independent", "slurp", "slurp with failing inputs differs from the slurp of the good inputs alone:\n  with:    %q\n  without: %q", firstN(string(full.Res.Stdout), 600), firstN(string(r1.Res.Stdout), 600))
			}
		}
	}
	if len(res.Violations) > 0 {
		return res
	}

	// ---- oracle 3: jq-compatible modes against the reference engine ------
	allJSON := true
	for _, in := range consumed {
		switch {
		case in.kind == inJSON:
		case c.rawInput && !c.slurp && (in.kind == inMissing || in.kind == inDir || in.kind == inEACCES):
			// raw input: a file that cannot be opened contributes no lines
		default:
			allJSON = false
		}
	}
	if c.argErr == "" && c.prog.compile && c.prog.values && allJSON {
		exp, ok := c.expected()
		if ok {
			res.Probes["jq_modes_checked"]++
			if !bytes.Equal(exp, full.Res.Stdout) {
				viol("jq-mode-output", c.modeKey(), "standard output differs from the reference engine's results rendered in the requested mode:\n  fq:        %q\n  reference: %q", firstN(string(full.Res.Stdout), 800), firstN(string(exp), 800))
			}
		}
	}
	return res
}

func (c *cliCase) modeKey() string {
	var k []string
	for _, f := range []struct {
		on bool
		n  string
	}{{c.nullIn, "n"}, {c.raw, "r"}, {c.join, "j"}, {c.compact, "c"}, {c.slurp, "s"}, {c.rawInput, "R"}, {c.raw0, "raw0"}, {len(c.args) > 0, "arg"}, {len(c.argjson) > 0, "argjson"}, {len(c.rawfile) > 0, "rawfile"}} {
		if f.on {
			k = append(k, f.n)
		}
	}
	return strings.Join(k, "+")
}

// expected renders what the reference engine (the gojq library evaluating the
// same program on the same JSON inputs) produces, in the requested mode.
func (c *cliCase) expected() ([]byte, bool) {
	q, err := gojq.Parse(c.prog.src)
	if err != nil {
		return nil, false
	}
	var names []string
	var vals []any
	for _, kv := range c.args {
		names = append(names, "$"+kv[0])
		vals = append(vals, kv[1])
	}
	for _, kv := range c.argjson {
		var v any
		if json.Unmarshal([]byte(kv[1]), &v) != nil {
			return nil, false
		}
		names = append(names, "$"+kv[0])
		vals = append(vals, normJSON(v))
	}
	for _, kv := range c.rawfile {
		names = append(names, "$"+kv[0])
		vals = append(vals, "file content\n")
	}
	code, err := gojq.Compile(q, gojq.WithVariables(names))
	if err != nil {
		return nil, false
	}
	var inputs []any
	switch {
	case c.nullIn:
		inputs = []any{nil}
	case c.slurp && c.rawInput:
		var sb strings.Builder
		for _, in := range c.inputs {
			sb.WriteString(in.text + in.tail)
		}
		inputs = []any{sb.String()}
	case c.slurp:
		var arr []any
		for _, in := range c.inputs {
			arr = append(arr, normJSON(in.val))
		}
		if arr == nil {
			arr = []any{}
		}
		inputs = []any{arr}
	case c.rawInput:
		// like jq: all files form one stream of lines (failing files contribute nothing)
		var sb strings.Builder
		for _, in := range c.inputs {
			if in.kind == inJSON {
				sb.WriteString(in.text + in.tail)
			}
		}
		all := strings.TrimSuffix(sb.String(), "\n")
		if all == "" && sb.Len() == 0 {
			return nil, false
		}
		for _, l := range strings.Split(all, "\n") {
			inputs = append(inputs, l)
		}
	default:
		for _, in := range c.inputs {
			inputs = append(inputs, normJSON(in.val))
		}
	}
	var out bytes.Buffer
	for _, in := range inputs {
		it := code.Run(in, vals...)
		for {
			v, ok := it.Next()
			if !ok {
				break
			}
			if _, isErr := v.(error); isErr {
				break // the rest of this input is cut; the error goes to standard error
			}
			if s, ok := v.(string); ok && (c.raw || c.join || c.raw0) {
				out.WriteString(s)
			} else {
				b, err := renderJSON(v, c.compact)
				if err != nil {
					return nil, false
				}
				out.Write(b)
			}
			switch {
			case c.raw0:
				out.WriteByte(0)
			case c.join:
			default:
				out.WriteByte('\n')
			}
		}
	}
	return out.Bytes(), true
}

func normJSON(v any) any {
	switch x := v.(type) {
	case float64:
		if x == float64(int(x)) {
			return int(x)
		}
		return x
	case []any:
		o := make([]any, len(x))
		for i := range x {
			o[i] = normJSON(x[i])
		}
		return o
	case map[string]any:
		o := map[string]any{}
		for k, e := range x {
			o[k] = normJSON(e)
		}
		return o
	}
	return v
}

func renderJSON(v any, compact bool) ([]byte, error) {
	var buf bytes.Buffer
	enc := json.NewEncoder(&buf)
	enc.SetEscapeHTML(false)
	if !compact {
		enc.SetIndent("", "  ")
	}
	if err := enc.Encode(v); err != nil {
		return nil, err
	}
	b := bytes.TrimRight(buf.Bytes(), "\n")
	return b, nil
}

func b2i(b bool) int {
	if b {
		return 1
	}
	return 0
}

func firstN(s string, n int) string {
	if len(s) > n {
		return s[:n] + "…"
	}
	return s
}
