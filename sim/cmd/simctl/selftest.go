package main

import "fmt"

func selftest() int {
	fmt.Println("selftest: not yet implemented")
	return 0
}
