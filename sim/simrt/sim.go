package simrt

import (
	"fmt"
	"os"
	"runtime"
	"runtime/debug"
	"sync/atomic"
	"syscall"
	"time"
	"unsafe"
)

// Task states.
const (
	tsFree = iota
	tsRunnable
	tsBlocked
	tsSleeping
	tsDone
)

// Scheduling policies.
const (
	PolSequential = iota // never pre-empt: run a task until it blocks or ends
	PolUniform           // any eligible task at every scheduling point
	PolSticky2           // switch with probability 1/2
	PolSticky8           // 1/8
	PolSticky64          // 1/64
	PolPCT               // random priorities with up to 3 change points
	NumPolicies
)

var PolicyNames = [NumPolicies]string{"sequential", "uniform", "sticky2", "sticky8", "sticky64", "pct"}

// Run outcomes.
const (
	EndAllDone  = iota // every non-daemon task ended
	EndDeadlock        // a non-daemon task is blocked and nothing can run
	EndBudget          // step budget exhausted
	EndPanic           // a task panicked
	EndStopped         // a task called StopRun
)

var EndNames = [...]string{"done", "deadlock", "budget", "panic", "stopped"}

const (
	maxTasks   = 256
	maxTrace   = 4096
	maxProbes  = 128
	maxKnobs   = 16
	maxSites   = 1 << 16
	maxPairs   = 1 << 12
	watchdogMs = 30000
)

type task struct {
	state      int
	daemon     bool
	name       string
	pr, pw     int
	blockEpoch uint64
	blockSite  int
	wakeAt     int64
	prio       int
	steps      int
	lastSite   int
	// hand-over fast path (plain builds only): 0 idle, 1 spinning, 2 sleeping in read(2), 3 released
	spin uint32
}

// TraceEv is one scheduling decision or fault in the decoded trace.
type TraceEv struct {
	Step int
	Now  int64
	Task int
	Site int
	Kind byte // 'y' yield, 's' switch-to, 'b' block, 'e' end, 'g' go, 'w' wake, 'f' fault, 'k' sleep
}

// Sim is one simulated run. Exactly one exists per process at a time.
type Sim struct {
	T      *Tape
	Policy int
	Budget int
	// Coarse turns the statement-level yields inserted by the instrumenter
	// (site ids below HarnessSiteBase) into no-ops: only seam calls and
	// channel/lock operations remain scheduling points.
	Coarse bool
	// WatchdogMs overrides the real-time watchdog for this run (0 = default).
	WatchdogMs int

	tasks  [maxTasks]task
	ntasks int
	cur    int // running task index, -1 = main
	mainR  int
	mainW  int

	step   int
	epoch  uint64
	now    int64 // simulated nanoseconds
	hash   uint64
	end    int
	ended  bool
	kill   bool
	active bool

	PanicVal   string
	PanicStack string
	PanicTask  string

	pctChange [3]int
	pctN      int
	pctLow    int

	trace  [maxTrace]TraceEv
	ntrace int
	Probes [maxProbes]int64
	knobs  [maxKnobs]knob
	nknobs int
	// happens-before plumbing for the race detector: every task releases on
	// its own word when it parks or ends and main acquires all of them when
	// it regains control (task -> main, never task -> task); main releases on
	// mainRel before it starts tasks and tasks acquire it when they resume.
	rel     [maxTasks]uint32
	mainRel uint32
	inOp    bool

	pairs    [maxPairs]uint32
	npairs   int
	Switches int
}

type knob struct {
	name string
	val  int
}

var cur *Sim

// Active reports whether a simulation is running.
//
//go:norace
func Active() bool { return cur != nil && cur.active }

// Cur returns the active simulation or nil.
//
//go:norace
func Cur() *Sim { return cur }

// New creates a simulation. Policy < 0 draws the policy from the tape.
func New(t *Tape, policy int, budget int) *Sim {
	if cur != nil {
		panic("simrt: simulation already active")
	}
	s := &Sim{T: t, Budget: budget, cur: -1}
	if policy < 0 {
		policy = t.Intn(NumPolicies)
	}
	s.Policy = policy
	var p [2]int
	if err := syscall.Pipe2(p[:], syscall.O_CLOEXEC); err != nil {
		infra("pipe: " + err.Error())
	}
	s.mainR, s.mainW = p[0], p[1]
	if policy == PolPCT {
		s.pctN = t.Intn(3)
		for i := 0; i < s.pctN; i++ {
			s.pctChange[i] = t.Intn(400)
		}
		s.pctLow = -1
	}
	s.hash = 14695981039346656037
	resetWaits()
	cur = s
	return s
}

// SetKnob sets a named tuning knob for the run.
func (s *Sim) SetKnob(name string, v int) {
	for i := 0; i < s.nknobs; i++ {
		if s.knobs[i].name == name {
			s.knobs[i].val = v
			return
		}
	}
	if s.nknobs < maxKnobs {
		s.knobs[s.nknobs] = knob{name, v}
		s.nknobs++
	}
}

// Knob returns a run-specific value for a named constant, or def when no
// simulation is active or the knob is not set.
//
//go:norace
func Knob(name string, def int) int {
	s := cur
	if s == nil {
		return def
	}
	for i := 0; i < s.nknobs; i++ {
		if s.knobs[i].name == name {
			return s.knobs[i].val
		}
	}
	return def
}

// InfraExit is the exit status for trouble in the machinery itself (Go's own
// fatal errors and unrecovered panics exit with 2, so that value is not used).
const InfraExit = 96

func infra(msg string) {
	infraExit(msg, InfraExit)
}

// WatchdogExit is the exit status of a worker whose running task reached no
// scheduling point for watchdogMs of real time (a spin or a native block in
// code under test): resource-inconclusive for that run, never a verdict.
const WatchdogExit = 97

func infraExit(msg string, code int) {
	fmt.Fprintln(os.Stderr, "SIMRT-INFRA: "+msg)
	buf := make([]byte, 1<<20)
	n := runtime.Stack(buf, true)
	os.Stderr.Write(buf[:n])
	os.Exit(code)
}

//go:norace
func rawWrite(fd int) {
	var b [1]byte
	for {
		_, _, e := syscall.Syscall(syscall.SYS_WRITE, uintptr(fd), uintptr(unsafe.Pointer(&b[0])), 1)
		if e == 0 {
			return
		}
		if e != syscall.EINTR {
			infra("baton write: " + e.Error())
		}
	}
}

//go:norace
func rawRead(fd int) {
	var b [1]byte
	for {
		n, _, e := syscall.Syscall(syscall.SYS_READ, uintptr(fd), uintptr(unsafe.Pointer(&b[0])), 1)
		if e == 0 {
			if n == 0 {
				infra("baton read: eof")
			}
			return
		}
		if e != syscall.EINTR {
			infra("baton read: " + e.Error())
		}
	}
}

type pollFd struct {
	fd      int32
	events  int16
	revents int16
}

// mainWait parks the main goroutine until a task hands control back, with a
// real-time watchdog: a released task that neither yields nor ends is an
// infrastructure problem (exit 2), never a verdict.
//
//go:norace
func (s *Sim) mainWait() {
	pfd := pollFd{fd: int32(s.mainR), events: 1}
	for {
		wd := watchdogMs
		if s.WatchdogMs > 0 {
			wd = s.WatchdogMs
		}
		n, _, e := syscall.Syscall(syscall.SYS_POLL, uintptr(unsafe.Pointer(&pfd)), 1, uintptr(wd))
		if e == syscall.EINTR {
			continue
		}
		if e != 0 {
			infra("poll: " + e.Error())
		}
		if n == 0 {
			infraExit(fmt.Sprintf("watchdog: no scheduling point for %d ms (task %d %q, step %d)", wd, s.cur, s.curName(), s.step), WatchdogExit)
		}
		break
	}
	rawRead(s.mainR)
	for i := 0; i < s.ntasks; i++ {
		atomic.LoadUint32(&s.rel[i])
	}
}

//go:norace
func (s *Sim) curName() string {
	if s.cur >= 0 && s.cur < s.ntasks {
		return s.tasks[s.cur].name
	}
	return "main"
}

//go:norace
func (s *Sim) logEv(task, site int, kind byte) {
	h := s.hash
	h = (h ^ uint64(task+1)) * 1099511628211
	h = (h ^ uint64(site+1)) * 1099511628211
	h = (h ^ uint64(kind)) * 1099511628211
	s.hash = h
	if s.ntrace < maxTrace {
		s.trace[s.ntrace] = TraceEv{s.step, s.now, task, site, kind}
	} else {
		// keep the last half as a ring
		i := maxTrace/2 + (s.ntrace-maxTrace)%(maxTrace/2)
		s.trace[i] = TraceEv{s.step, s.now, task, site, kind}
	}
	s.ntrace++
}

// Note mixes a harness-level event (fault fired, operation issued) into the
// fingerprint and the trace.
//
//go:norace
func Note(kind byte, site int) {
	s := cur
	if s == nil {
		return
	}
	s.logEv(s.cur, site, kind)
}

// Spawn registers a client task. It starts parked.
func (s *Sim) Spawn(name string, daemon bool, fn func()) int {
	return s.spawn(name, daemon, fn)
}

//go:norace
func (s *Sim) spawn(name string, daemon bool, fn func()) int {
	if s.ntasks >= maxTasks {
		infra("too many tasks")
	}
	id := s.ntasks
	s.ntasks++
	t := &s.tasks[id]
	var p [2]int
	if err := syscall.Pipe2(p[:], syscall.O_CLOEXEC); err != nil {
		infra("pipe: " + err.Error())
	}
	*t = task{state: tsRunnable, daemon: daemon, name: name, pr: p[0], pw: p[1], lastSite: -1}
	if s.Policy == PolPCT {
		t.prio = 1000 + s.T.Intn(1000)
	}
	s.epoch++
	s.logEv(id, -1, 'g')
	go s.taskMain(id, fn)
	return id
}

func (s *Sim) taskMain(id int, fn func()) {
	s.firstPark(id)
	defer s.taskExit(id)
	if s.killed() {
		return
	}
	fn()
}

//go:norace
func (s *Sim) firstPark(id int) {
	s.waitBaton(id)
	atomic.LoadUint32(&s.mainRel)
}

//go:norace
func (s *Sim) killed() bool { return s.kill }

//go:norace
func (s *Sim) setActive(v bool) { s.active = v }

func (s *Sim) taskExit(id int) {
	if r := recover(); r != nil {
		s.notePanic(id, fmt.Sprint(r), string(debug.Stack()))
	}
	s.taskEnd(id)
}

//go:norace
func (s *Sim) notePanic(id int, val, stack string) {
	if s.kill {
		return
	}
	if s.PanicVal == "" {
		s.PanicVal = val
		s.PanicStack = stack
		s.PanicTask = s.tasks[id].name
	}
	s.finish(EndPanic)
}

//go:norace
func (s *Sim) finish(end int) {
	if !s.ended {
		s.ended = true
		s.end = end
	}
}

//go:norace
func (s *Sim) taskEnd(id int) {
	t := &s.tasks[id]
	t.state = tsDone
	s.epoch++
	atomic.StoreUint32(&s.rel[id], 1)
	if s.kill {
		rawWrite(s.mainW)
		return
	}
	s.logEv(id, -1, 'e')
	s.dispatch(-1)
}

// dispatch picks the next task and hands over. self is the calling task's
// index if it wants to continue to exist (it will park), or -1 if it is
// ending. Returns when the caller is scheduled again.
//
//go:norace
func (s *Sim) dispatch(self int) {
	next := -2
	if !s.ended {
		next = s.pick(self)
	}
	if s.ended || next == -2 {
		// hand control to main
		s.cur = -1
		rawWrite(s.mainW)
		if self >= 0 {
			s.park(self)
		}
		return
	}
	if next == self {
		return
	}
	s.noteSwitch(self, next)
	s.cur = next
	s.release(next)
	if self >= 0 {
		s.park(self)
	}
}

//go:norace
func (s *Sim) noteSwitch(self, next int) {
	s.Switches++
	s.logEv(next, -1, 's')
	a := 0
	if self >= 0 {
		a = s.tasks[self].lastSite + 2
	}
	b := s.tasks[next].lastSite + 2
	key := uint32(a&0xffff)<<16 | uint32(b&0xffff)
	if key == 0 {
		key = 1
	}
	h := int((key * 2654435761) >> 20 % maxPairs)
	for i := 0; i < 64; i++ {
		j := (h + i) % maxPairs
		if s.pairs[j] == key {
			return
		}
		if s.pairs[j] == 0 {
			s.pairs[j] = key
			s.npairs++
			return
		}
	}
}

//go:norace
func (s *Sim) park(self int) {
	atomic.StoreUint32(&s.rel[self], 1)
	s.waitBaton(self)
	atomic.LoadUint32(&s.mainRel)
	if s.kill {
		runtime.Goexit()
	}
}

// waitBaton blocks until the task is released. In plain builds the task first
// spins briefly on its own word (a ping-pong between a caller and the ctx
// reader's loop goroutine then costs no system call); in race builds only the
// raw pipe is used, because the atomics would order the tasks for the detector.
//
//go:norace
func (s *Sim) waitBaton(self int) {
	t := &s.tasks[self]
	if raceBuild {
		rawRead(t.pr)
		return
	}
	if !atomic.CompareAndSwapUint32(&t.spin, 0, 1) {
		// released before we got here
		atomic.StoreUint32(&t.spin, 0)
		return
	}
	for i := 0; i < spinIters; i++ {
		if atomic.LoadUint32(&t.spin) == 3 {
			atomic.StoreUint32(&t.spin, 0)
			return
		}
		spinPause()
	}
	if atomic.CompareAndSwapUint32(&t.spin, 1, 2) {
		rawRead(t.pr)
	}
	atomic.StoreUint32(&t.spin, 0)
}

// release hands the baton to task i.
//
//go:norace
func (s *Sim) release(i int) {
	t := &s.tasks[i]
	if raceBuild {
		rawWrite(t.pw)
		return
	}
	for {
		old := atomic.LoadUint32(&t.spin)
		switch old {
		case 0, 1:
			// not parked yet, or spinning: mark released
			if atomic.CompareAndSwapUint32(&t.spin, old, 3) {
				return
			}
		case 2:
			rawWrite(t.pw)
			return
		default:
			return
		}
	}
}

var spinIters = func() int {
	if v := os.Getenv("SIMRT_SPIN"); v != "" {
		n := 0
		for _, c := range v {
			if c < '0' || c > '9' {
				return 30000
			}
			n = n*10 + int(c-'0')
		}
		return n
	}
	return 30000
}()

//go:noinline
func spinPause() {}

//go:norace
func (s *Sim) eligible(i int) bool {
	t := &s.tasks[i]
	switch t.state {
	case tsRunnable:
		return true
	case tsBlocked:
		return t.blockEpoch < s.epoch
	}
	return false
}

// pick returns the next task to run, or -2 if the run is over (outcome set).
//
//go:norace
func (s *Sim) pick(self int) int {
	for {
		var el [maxTasks]int
		n := 0
		for i := 0; i < s.ntasks; i++ {
			if s.eligible(i) {
				el[n] = i
				n++
			}
		}
		if n == 0 {
			// advance the clock to the earliest sleeper
			best := -1
			for i := 0; i < s.ntasks; i++ {
				if s.tasks[i].state == tsSleeping && (best < 0 || s.tasks[i].wakeAt < s.tasks[best].wakeAt) {
					best = i
				}
			}
			if best >= 0 {
				if s.tasks[best].wakeAt > s.now {
					s.now = s.tasks[best].wakeAt
				}
				for i := 0; i < s.ntasks; i++ {
					if s.tasks[i].state == tsSleeping && s.tasks[i].wakeAt <= s.now {
						s.tasks[i].state = tsRunnable
						s.logEv(i, -1, 'w')
					}
				}
				s.epoch++
				continue
			}
			// quiescent
			clientBlocked := false
			for i := 0; i < s.ntasks; i++ {
				if !s.tasks[i].daemon && s.tasks[i].state != tsDone {
					clientBlocked = true
				}
			}
			if clientBlocked {
				s.finish(EndDeadlock)
			} else {
				s.finish(EndAllDone)
			}
			return -2
		}
		// all clients done => run over (daemons are drained by Close)
		clients := false
		for i := 0; i < s.ntasks; i++ {
			if !s.tasks[i].daemon && s.tasks[i].state != tsDone {
				clients = true
			}
		}
		if !clients {
			s.finish(EndAllDone)
			return -2
		}
		selfEl := false
		for i := 0; i < n; i++ {
			if el[i] == self {
				selfEl = true
			}
		}
		switch s.Policy {
		case PolSequential:
			if selfEl {
				return self
			}
			return el[0]
		case PolUniform:
			if n == 1 {
				return el[0]
			}
			return el[s.T.Intn(n)]
		case PolSticky2, PolSticky8, PolSticky64:
			if selfEl {
				if n == 1 {
					return self
				}
				den := 2
				if s.Policy == PolSticky8 {
					den = 8
				} else if s.Policy == PolSticky64 {
					den = 64
				}
				if s.T.Intn(den) != 0 {
					return self
				}
				// switch to one of the others
				k := s.T.Intn(n - 1)
				for i := 0; i < n; i++ {
					if el[i] == self {
						continue
					}
					if k == 0 {
						return el[i]
					}
					k--
				}
			}
			if n == 1 {
				return el[0]
			}
			return el[s.T.Intn(n)]
		case PolPCT:
			for i := 0; i < s.pctN; i++ {
				if s.pctChange[i] == s.step && self >= 0 {
					s.tasks[self].prio = s.pctLow
					s.pctLow--
				}
			}
			best := el[0]
			for i := 1; i < n; i++ {
				if s.tasks[el[i]].prio > s.tasks[best].prio {
					best = el[i]
				}
			}
			return best
		}
		return el[0]
	}
}

// Yield is a scheduling point.
//
//go:norace
func Yield(site int) {
	s := cur
	if s == nil || !s.active || s.kill || s.cur < 0 {
		return
	}
	if s.Coarse && site >= 0 && site < HarnessSiteBase && !s.inOp {
		return
	}
	self := s.cur
	s.step++
	s.epoch++
	s.tasks[self].steps++
	s.logEv(self, site, 'y')
	if s.step > s.Budget {
		s.finish(EndBudget)
	}
	s.tasks[self].lastSite = site
	s.dispatch(self)
}

// Pairs returns the distinct (site switched away from -> site resumed at)
// context-switch pairs of this run.
//
//go:norace
func (s *Sim) Pairs() []uint32 {
	out := make([]uint32, 0, s.npairs)
	for i := 0; i < maxPairs; i++ {
		if s.pairs[i] != 0 {
			out = append(out, s.pairs[i])
		}
	}
	return out
}

// Block reports that the calling task cannot make progress at site until some
// other task has made progress; the caller retries after Block returns.
//
//go:norace
func Block(site int) {
	s := cur
	if s != nil && s.kill {
		// the run is being torn down: a task that still waits ends here
		runtime.Goexit()
	}
	if s == nil || !s.active || s.cur < 0 {
		// no simulation: be a polite spin
		runtime.Gosched()
		return
	}
	self := s.cur
	s.step++
	t := &s.tasks[self]
	t.state = tsBlocked
	t.blockEpoch = s.epoch
	t.blockSite = site
	t.lastSite = site
	s.logEv(self, site, 'b')
	if s.step > s.Budget {
		s.finish(EndBudget)
	}
	s.dispatch(self)
	t.state = tsRunnable
}

// Sleep suspends the calling task for d of simulated time.
//
//go:norace
func Sleep(d time.Duration) {
	s := cur
	if s == nil || !s.active || s.kill || s.cur < 0 {
		return
	}
	self := s.cur
	if d <= 0 {
		Yield(-1)
		return
	}
	s.step++
	s.epoch++
	t := &s.tasks[self]
	t.state = tsSleeping
	t.wakeAt = s.now + int64(d)
	s.logEv(self, -1, 'k')
	s.dispatch(self)
}

var simEpoch = time.Date(2030, 1, 1, 0, 0, 0, 0, time.UTC)

// Now is the simulated clock (real clock when no simulation is active).
//
//go:norace
func Now() time.Time {
	s := cur
	if s == nil {
		return time.Now()
	}
	return simEpoch.Add(time.Duration(s.now))
}

// Advance moves the simulated clock forward without suspending the caller.
//
//go:norace
func Advance(d time.Duration) {
	s := cur
	if s == nil {
		return
	}
	s.now += int64(d)
}

// SimNow returns simulated nanoseconds since the start of the run.
//
//go:norace
func (s *Sim) SimNow() int64 { return s.now }

// Go starts fn as a simulated task (a plain goroutine without a simulation).
func Go(site int, fn func()) {
	s := Cur()
	if s == nil || !Active() || s.killed() {
		go fn()
		return
	}
	name := "go@" + SiteName(site)
	s.spawn(name, true, fn)
	Yield(site)
}

// StopRun ends the run from inside a task (e.g. an invariant failed).
//
//go:norace
func StopRun() {
	s := cur
	if s == nil || s.cur < 0 {
		return
	}
	s.finish(EndStopped)
	s.dispatch(s.cur)
}

// Probe counts that a rare condition was reached.
//
//go:norace
func Probe(id int) {
	s := cur
	if s == nil || id < 0 || id >= maxProbes {
		return
	}
	s.Probes[id]++
}

// CurTask returns the running task index (-1 for main / none).
//
//go:norace
func CurTask() int {
	s := cur
	if s == nil {
		return -1
	}
	return s.cur
}

// Run executes the simulation until every client task has ended, a deadlock,
// the step budget, a panic or StopRun. It returns the outcome.
func (s *Sim) Run() int {
	return s.runMain()
}

//go:norace
func (s *Sim) runMain() int {
	s.active = true
	s.runMain1()
	s.active = false
	return s.end
}

//go:norace
func (s *Sim) runMain1() {
	atomic.StoreUint32(&s.mainRel, 1)
	next := s.pick(-1)
	if next == -2 {
		return
	}
	s.cur = next
	s.logEv(next, -1, 's')
	s.release(next)
	s.mainWait()
}

// Resume continues a stopped run (used by harnesses that drive phases).
func (s *Sim) Resume() int {
	s.clearEnded()
	return s.Run()
}

//go:norace
func (s *Sim) clearEnded() { s.ended = false }

// Close terminates every remaining task (runtime.Goexit from its park call)
// and releases the pipes. The Sim must not be used afterwards.
func (s *Sim) Close() {
	s.closeTasks()
}

//go:norace
func (s *Sim) closeTasks() {
	defer func() { cur = nil }()
	s.kill = true
	atomic.StoreUint32(&s.mainRel, 2)
	for i := 0; i < s.ntasks; i++ {
		t := &s.tasks[i]
		if t.state != tsDone {
			s.cur = i
			s.release(i)
			s.mainWait()
		}
	}
	for i := 0; i < s.ntasks; i++ {
		syscall.Close(s.tasks[i].pr)
		syscall.Close(s.tasks[i].pw)
	}
	syscall.Close(s.mainR)
	syscall.Close(s.mainW)
}

// Stats of a finished run.
type Stats struct {
	Steps       int
	Tasks       int
	Switches    int
	Fingerprint uint64
	SimNanos    int64
	End         string
	Policy      string
}

//go:norace
func (s *Sim) Stats() Stats {
	return Stats{Steps: s.step, Tasks: s.ntasks, Switches: s.Switches, Fingerprint: s.hash, SimNanos: s.now, End: EndNames[s.end], Policy: PolicyNames[s.Policy]}
}

// Trace returns the decoded event trace (at most the first and last 2048 events).
//
//go:norace
func (s *Sim) Trace() []string {
	n := s.ntrace
	if n > maxTrace {
		n = maxTrace
	}
	out := make([]string, 0, n)
	for i := 0; i < n; i++ {
		e := s.trace[i]
		name := "main"
		if e.Task >= 0 && e.Task < s.ntasks {
			name = s.tasks[e.Task].name
		}
		out = append(out, fmt.Sprintf("step=%d t=%dns task=%d(%s) %c %s", e.Step, e.Now, e.Task, name, e.Kind, SiteName(e.Site)))
	}
	return out
}

// BlockedTasks describes tasks that are blocked (for deadlock reports).
//
//go:norace
func (s *Sim) BlockedTasks() []string {
	var out []string
	for i := 0; i < s.ntasks; i++ {
		t := &s.tasks[i]
		if t.state == tsBlocked {
			out = append(out, fmt.Sprintf("%s@%s", t.name, SiteName(t.blockSite)))
		}
	}
	return out
}

// HarnessSiteBase: site ids from here on belong to harness seams; smaller ones
// are generated by the instrumenter.
const HarnessSiteBase = 50000

// OpYield is the scheduling point of a simulated channel or lock operation: it
// stays one in coarse mode.
//
//go:norace
func OpYield(site int) {
	s := cur
	if s == nil {
		return
	}
	s.inOp = true
	Yield(site)
	s.inOp = false
}

// BlockedAt reports whether some task is currently blocked at a site whose name
// contains sub (e.g. the trigger goroutine waiting in interp.go's select).
//
//go:norace
func BlockedAt(sub string) bool {
	s := cur
	if s == nil {
		return false
	}
	for i := 0; i < s.ntasks; i++ {
		t := &s.tasks[i]
		if t.state == tsBlocked && containsStr(SiteName(t.blockSite), sub) {
			return true
		}
	}
	return false
}

//go:norace
func containsStr(s, sub string) bool {
	for i := 0; i+len(sub) <= len(s); i++ {
		if s[i:i+len(sub)] == sub {
			return true
		}
	}
	return false
}

// Site names are registered by generated code in the instrumented packages.
var siteNames [maxSites]string

//go:norace
func RegisterSite(id int, name string) {
	if id >= 0 && id < maxSites {
		siteNames[id] = name
	}
}

//go:norace
func SiteName(id int) string {
	if id >= 0 && id < maxSites && siteNames[id] != "" {
		return siteNames[id]
	}
	return fmt.Sprintf("site%d", id)
}
