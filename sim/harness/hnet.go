package harness

import (
	"bytes"
	"context"
	"encoding/hex"
	"encoding/json"
	"fmt"
	"io"
	"runtime/debug"
	"strings"

	"github.com/wader/fq/internal/bitiox"
	"github.com/wader/fq/pkg/bitio"
	"github.com/wader/fq/pkg/decode"
	"github.com/wader/fq/pkg/interp"
	"github.com/wader/fq/pkg/scalar"
	"github.com/wader/fq/zzverif/sim/core"
	"github.com/wader/fq/zzverif/sim/netsim"
	"github.com/wader/fq/zzverif/sim/simos"
)

// H-NET: harness for C19 (DESIGN §3 C19). Generator: sim/netsim (a simulated
// TCP/IP world with a capture tap, and capture writers that share no code with
// fq or gopacket). Real: the whole of fq run in-process on the simulated OS:
// pcap/pcapng decoders, flowsdecoder, gopacket reassembly and defragmentation,
// ipv4_packet/tcp_segment decoders, the jq query and JSON output.
//
// Configurations:
//
//	clean      segmentation, interleaving, loss before/after the tap,
//	           duplication, local reordering (<= 3 positions, never across a
//	           SYN/FIN), fragmentation; the tap omits nothing: exactness
//	omission   the tap omits 1..2 data segments: prefix + skipped_bytes rule
//	snaplen    the capture is taken with a snap length below the size of some
//	           data frames (incl_len < orig_len, never cutting a header; no
//	           fragmenting router): the cut-off bytes are missing from the
//	           capture, same rule as omission
//	nosyn      the tap omits the client's SYN, or SYN and SYN-ACK: streams are
//	           exact and attributed to the right (address, port), whichever
//	           side is labelled client
//	large      a connection with segments of 30..64 KiB (40..260 KiB per
//	           direction), one of them overtaken by the next one to three, or
//	           (half of the runs) a data segment omitted by the tap
//	reportonly reorderings the statement does not promise (SYN/FIN swaps, data
//	           before SYN, FIN before earlier data, displacement up to 8) and
//	           pcapng sections with a stated length: mismatches are counted
//	           in Extra as reportonly_<oracle>, never violations
//
// Violation classes: oracle is one of connection-count, endpoint-mismatch,
// stream-mismatch, invented-data, skipped-nonzero, skipped-not-signalled,
// ipv4-reassembly, section-count, decode-failed, panic. The key is
// "<feature>/<pcap|pcapng>"; the feature is the most specific property of the
// history of the direction or datagram concerned (netsim.DirTruth.Feature):
// frag-eqlen, seqwrap-back, fragorder, seqwrap, ipv6-v4mapped, ipv6, plain
// (ipv6: the direction, or the connection that is missing or mislabelled, was
// carried over IPv6; ipv6-v4mapped: ... and the address concerned is
// ::ffff:a.b.c.d). Link type(s) and exact file type lead the detail text in
// brackets.
func init() { core.Register(&hnet{}) }

type hnet struct{}

// HnetCaptureSink, when set (sim/cmd/hnetcap), receives every capture the
// harness writes, so that a replayed case can be looked at with other tools.
var HnetCaptureSink func(flavour string, capture []byte)

func (*hnet) Name() string { return "hnet" }

const hnetQuery = `def d: {ip, port: (.port|toactual), skipped_bytes, has_start, has_end, stream: (.stream|tobytes|tohex)};` +
	` def f: {conns: [.tcp_connections[] | {client: (.client|d), server: (.server|d)}],` +
	` reasm: [.ipv4_reassembled[] | {raw: (tobytes|tohex), src: (try (.source_ip|tosym) catch null), dst: (try (.destination_ip|tosym) catch null),` +
	` proto: (try (.protocol|toactual) catch null), payload: (try (.payload|tobytes|tohex) catch null)}]};`

// what fq reports, whichever way it was read
type hnetDir struct {
	IP       string
	Port     int
	Skipped  uint64
	HasStart bool
	HasEnd   bool
	Stream   []byte
}

type hnetReasm struct {
	Raw     []byte
	Decoded bool // the entry is a decoded ipv4_packet with these fields
	Src     string
	Dst     string
	Proto   int
	Payload []byte
}

type hnetConn struct{ Client, Server hnetDir }

type hnetFlows struct {
	Conns []hnetConn
	Reasm []hnetReasm
}

// JSON shapes of hnetQuery
type hnetDirJ struct {
	IP       string `json:"ip"`
	Port     int    `json:"port"`
	Skipped  uint64 `json:"skipped_bytes"`
	HasStart bool   `json:"has_start"`
	HasEnd   bool   `json:"has_end"`
	Stream   string `json:"stream"`
}

type hnetFlowsJ struct {
	Conns []struct {
		Client hnetDirJ `json:"client"`
		Server hnetDirJ `json:"server"`
	} `json:"conns"`
	Reasm []struct {
		Raw     string  `json:"raw"`
		Src     *string `json:"src"`
		Dst     *string `json:"dst"`
		Proto   *int    `json:"proto"`
		Payload *string `json:"payload"`
	} `json:"reasm"`
}

func (j *hnetFlowsJ) flows() (*hnetFlows, error) {
	f := &hnetFlows{}
	dir := func(d hnetDirJ) (hnetDir, error) {
		b, err := hex.DecodeString(d.Stream)
		return hnetDir{IP: d.IP, Port: d.Port, Skipped: d.Skipped, HasStart: d.HasStart, HasEnd: d.HasEnd, Stream: b}, err
	}
	for _, c := range j.Conns {
		cl, err1 := dir(c.Client)
		sv, err2 := dir(c.Server)
		if err1 != nil || err2 != nil {
			return nil, fmt.Errorf("stream is not hex")
		}
		f.Conns = append(f.Conns, hnetConn{cl, sv})
	}
	for _, r := range j.Reasm {
		raw, err := hex.DecodeString(r.Raw)
		if err != nil {
			return nil, err
		}
		e := hnetReasm{Raw: raw}
		if r.Src != nil && r.Dst != nil && r.Proto != nil && r.Payload != nil {
			e.Decoded, e.Src, e.Dst, e.Proto = true, *r.Src, *r.Dst, *r.Proto
			if e.Payload, err = hex.DecodeString(*r.Payload); err != nil {
				return nil, err
			}
		}
		f.Reasm = append(f.Reasm, e)
	}
	return f, nil
}

// The direct path: decode.Decode through the registry, then read the same
// fields from the value tree. hnetBytes is what tobytes does for a decode
// value (pkg/interp decodeValueBase.ToBinary: RootReader over InnerRange).
func hnetBytes(v *decode.Value) ([]byte, error) {
	r := v.InnerRange()
	br, err := bitiox.Range(v.RootReader, r.Start, r.Len)
	if err != nil {
		return nil, err
	}
	var buf bytes.Buffer
	if _, err := io.Copy(&buf, bitio.NewIOReader(br)); err != nil {
		return nil, err
	}
	return buf.Bytes(), nil
}

func hnetField(v *decode.Value, name string) *decode.Value {
	if v == nil {
		return nil
	}
	c, ok := v.V.(*decode.Compound)
	if !ok || c.IsArray {
		return nil
	}
	for _, f := range c.Children {
		if f.Name == name {
			return f
		}
	}
	return nil
}

func hnetElems(v *decode.Value) []*decode.Value {
	if v == nil {
		return nil
	}
	if c, ok := v.V.(*decode.Compound); ok && c.IsArray {
		return c.Children
	}
	return nil
}

func hnetActual(v *decode.Value) any {
	if v == nil {
		return nil
	}
	if s, ok := v.V.(scalar.Scalarable); ok {
		return s.ScalarActual()
	}
	return nil
}

func hnetSym(v *decode.Value) any {
	if v == nil {
		return nil
	}
	if s, ok := v.V.(scalar.Scalarable); ok {
		return s.ScalarSym()
	}
	return nil
}

func hnetExtract(root *decode.Value) (*hnetFlows, error) {
	f := &hnetFlows{}
	conns, reasm := hnetField(root, "tcp_connections"), hnetField(root, "ipv4_reassembled")
	if conns == nil || reasm == nil {
		return nil, fmt.Errorf("tcp_connections or ipv4_reassembled missing")
	}
	dir := func(v *decode.Value) (hnetDir, error) {
		var d hnetDir
		var ok [5]bool
		d.IP, ok[0] = hnetActual(hnetField(v, "ip")).(string)
		var port uint64
		port, ok[1] = hnetActual(hnetField(v, "port")).(uint64)
		d.Port = int(port)
		d.Skipped, ok[2] = hnetActual(hnetField(v, "skipped_bytes")).(uint64)
		d.HasStart, ok[3] = hnetActual(hnetField(v, "has_start")).(bool)
		d.HasEnd, ok[4] = hnetActual(hnetField(v, "has_end")).(bool)
		if ok != [5]bool{true, true, true, true, true} {
			return d, fmt.Errorf("tcp_connection field missing or of unexpected type %v", ok)
		}
		st := hnetField(v, "stream")
		if st == nil {
			return d, fmt.Errorf("stream missing")
		}
		var err error
		d.Stream, err = hnetBytes(st)
		return d, err
	}
	for _, c := range hnetElems(conns) {
		cl, err := dir(hnetField(c, "client"))
		if err != nil {
			return nil, err
		}
		sv, err := dir(hnetField(c, "server"))
		if err != nil {
			return nil, err
		}
		f.Conns = append(f.Conns, hnetConn{cl, sv})
	}
	for _, r := range hnetElems(reasm) {
		raw, err := hnetBytes(r)
		if err != nil {
			return nil, err
		}
		e := hnetReasm{Raw: raw}
		src, ok1 := hnetSym(hnetField(r, "source_ip")).(string)
		dst, ok2 := hnetSym(hnetField(r, "destination_ip")).(string)
		proto, ok3 := hnetActual(hnetField(r, "protocol")).(uint64)
		if pl := hnetField(r, "payload"); ok1 && ok2 && ok3 && pl != nil {
			e.Decoded, e.Src, e.Dst, e.Proto = true, src, dst, int(proto)
			if e.Payload, err = hnetBytes(pl); err != nil {
				return nil, err
			}
		}
		f.Reasm = append(f.Reasm, e)
	}
	return f, nil
}

func ipString(ip [4]byte) string { return fmt.Sprintf("%d.%d.%d.%d", ip[0], ip[1], ip[2], ip[3]) }

// ip6String is the textual form of an IPv6 address as RFC 5952 recommends it,
// written here from the RFC (no net / netip): lower case hexadecimal groups
// without leading zeros; the longest run of two or more zero groups, the first
// one when several are equally long, is replaced by "::"; a single zero group
// is written "0"; an IPv4-mapped address (::ffff:a.b.c.d) has its last 32 bits
// in dotted decimal (section 5).
func ip6String(a [16]byte) string {
	var g [8]int
	for i := range g {
		g[i] = int(a[2*i])<<8 | int(a[2*i+1])
	}
	if g[0]|g[1]|g[2]|g[3]|g[4] == 0 && g[5] == 0xffff {
		return "::ffff:" + ipString([4]byte{a[12], a[13], a[14], a[15]})
	}
	bestAt, bestLen := -1, 1
	for i := 0; i < 8; {
		if g[i] != 0 {
			i++
			continue
		}
		j := i
		for j < 8 && g[j] == 0 {
			j++
		}
		if j-i > bestLen {
			bestAt, bestLen = i, j-i
		}
		i = j
	}
	const hexd = "0123456789abcdef"
	var sb strings.Builder
	for i := 0; i < 8; i++ {
		if i == bestAt {
			sb.WriteString("::")
			i += bestLen - 1
			continue
		}
		if i > 0 && i != bestAt+bestLen {
			sb.WriteByte(':')
		}
		v, started := g[i], false
		for sh := 12; sh >= 0; sh -= 4 {
			if d := v >> uint(sh) & 15; d != 0 || started || sh == 0 {
				sb.WriteByte(hexd[d])
				started = true
			}
		}
	}
	return sb.String()
}

// addrString is the address of a direction as fq is expected to print it.
func addrString(a netsim.Addr) string {
	if a.V4Mapped() {
		// an IPv4-mapped address has two customary notations, ::ffff:a.b.c.d and a.b.c.d; which one
		// is printed is not part of the statement. fq (Go's net.IP) prints the dotted one.
		return ipString([4]byte{a.B[12], a.B[13], a.B[14], a.B[15]})
	}
	if a.V6 {
		return ip6String(a.B)
	}
	return ipString([4]byte{a.B[0], a.B[1], a.B[2], a.B[3]})
}

// hostPort joins address and port for messages ([addr]:port for IPv6).
func hostPort(a netsim.Addr, port uint16) string {
	if a.V6 {
		return fmt.Sprintf("[%s]:%d", ip6String(a.B), port)
	}
	return fmt.Sprintf("%s:%d", addrString(a), port)
}

func hnetFnv64(b []byte) uint64 {
	h := uint64(14695981039346656037)
	for _, c := range b {
		h = (h ^ uint64(c)) * 1099511628211
	}
	return h
}

// firstDiff describes where two byte strings part.
func hnetFirstDiff(got, want []byte) string {
	n := len(got)
	if len(want) < n {
		n = len(want)
	}
	i := 0
	for i < n && got[i] == want[i] {
		i++
	}
	ctx := func(b []byte) string {
		lo, hi := i-4, i+8
		if lo < 0 {
			lo = 0
		}
		if hi > len(b) {
			hi = len(b)
		}
		if lo > hi {
			lo = hi
		}
		return hex.EncodeToString(b[lo:hi])
	}
	return fmt.Sprintf("reported %d bytes, expected %d, first difference at offset %d (reported ..%s.. expected ..%s..)", len(got), len(want), i, ctx(got), ctx(want))
}

func (*hnet) Run(rc *core.RunCtx) *core.RunResult {
	res := core.NewResult()
	params := netsim.Params{Omission: rc.Config == "omission", Wide: rc.Config == "reportonly",
		Snaplen: rc.Config == "snaplen", NoSYN: rc.Config == "nosyn", Large: rc.Config == "large"}
	key, flavour := "?", "?"
	phase := "generator"
	report := func(oracle, k, detail string) {
		if params.Wide {
			res.Extra["reportonly_"+oracle]++
			return
		}
		// one violation per run, the first in the order of the checks
		// (connections, endpoints, reassembled datagrams, streams, skipped
		// counts): what follows is usually a consequence of it, and the
		// worker keeps one replayable tape per run
		if len(res.Violations) > 0 {
			res.Extra["further_mismatch_in_violating_run"]++
			return
		}
		res.Violate("C19", oracle, k, "["+flavour+"] "+detail)
	}
	defer func() {
		if r := recover(); r != nil {
			stack := string(debug.Stack())
			if phase == "fq" {
				fn, class := core.PanicKey(fmt.Sprint(r), stack)
				res.Violate("C19", "panic", fn+":"+class, fmt.Sprintf("fq panicked on a capture (%s): %v", flavour, r))
			} else {
				res.Violate("HARNESS", "generator-panic", phase, fmt.Sprintf("%v\n%s", r, stack))
			}
		}
	}()

	w := netsim.Generate(rc.T, params)
	w.Run()
	res.Steps = w.Events
	res.SimNanos = w.Now
	if w.Err != "" {
		res.Violate("HARNESS", "generator", strings.SplitN(w.Err, ":", 2)[0], w.Err)
		return res
	}
	spec := netsim.DrawCaptureSpec(rc.T, params, w)
	key = spec.Family()
	flavour = spec.Key()
	capture := netsim.WriteCapture(w, spec)
	tr := netsim.ComputeTruth(w)
	for i, n := range w.Faults {
		if n > 0 {
			res.Faults[netsim.FaultNames[i]] += n
		}
	}
	res.Fingerprint = hnetFnv64(capture)
	if HnetCaptureSink != nil {
		HnetCaptureSink(flavour, capture)
	}
	if !w.MayLoseBytes() && tr.Holes != 0 {
		res.Violate("HARNESS", "generator", "tap-lost-bytes", "the capture lacks stream bytes although the tap omitted nothing")
		return res
	}
	if tr.Holes > 0 {
		res.Extra["directions_with_hole"] += tr.Holes
	}
	res.Extra["file_"+netsim.FileTypeNames[spec.FileType]]++
	for _, l := range spec.Links {
		res.Extra["link_"+netsim.LinkName(l)]++
	}
	if len(spec.Links) > 1 {
		res.Extra["two_interfaces"]++
	}
	res.Extra["packets"] += len(w.Tap)
	res.Extra["reassembled_datagrams"] += len(tr.Reasm)
	for i := range tr.Conns {
		for s := 0; s < 2; s++ {
			switch d := &tr.Conns[i].Dirs[s]; {
			case d.Missing && d.LaterData:
				res.Extra["hole_with_later_data"]++
			case d.Missing:
				res.Extra["hole_without_later_data"]++
			}
		}
	}
	res.Extra["connections"] += len(w.Conns)
	// reach of the IPv6 extension: connections per family, mixed captures,
	// extension headers, captures per single-family link type
	n6 := 0
	for _, cn := range w.Conns {
		if cn.V6 {
			n6++
			for side := 0; side < 2; side++ {
				switch cn.Ends[side].ExtKind() {
				case 0:
					res.Extra["ipv6_dir_hop_by_hop_header"]++
				case 60:
					res.Extra["ipv6_dir_destination_options_header"]++
				}
			}
		}
	}
	res.Extra["connections_ipv6"] += n6
	res.Extra["connections_ipv4"] += len(w.Conns) - n6
	switch {
	case n6 == 0:
		res.Extra["capture_ipv4_only"]++
	case n6 == len(w.Conns):
		res.Extra["capture_ipv6_only"]++
	default:
		res.Extra["capture_mixed_ipv4_ipv6"]++
	}
	for _, l := range spec.Links {
		switch l {
		case netsim.LinkIPv4:
			res.Extra["capture_linktype_ipv4_228"]++
		case netsim.LinkIPv6:
			res.Extra["capture_linktype_ipv6_229"]++
		default:
			if n6 > 0 {
				res.Extra["ipv6_over_link_"+netsim.LinkName(l)]++
			}
		}
	}

	// the case, for humans
	var conns []map[string]any
	totalData := 0
	for _, ct := range tr.Conns {
		c, s := &ct.Dirs[0], &ct.Dirs[1]
		totalData += len(c.Sent) + len(s.Sent)
		conns = append(conns, map[string]any{
			"client": hostPort(c.Addr, c.Port), "server": hostPort(s.Addr, s.Port),
			"client_bytes": len(c.Sent), "server_bytes": len(s.Sent), "client_isn": c.ISS, "server_isn": s.ISS,
			"client_segments": c.DataSegs, "server_segments": s.DataSegs,
			"client_expect": len(c.Expect), "server_expect": len(s.Expect),
		})
		if c.V6 {
			// IPv6 extension header in front of TCP per direction (0 hop-by-hop, 60 destination options, -1 none)
			conns[len(conns)-1]["ipv6_ext_header"] = []int{c.ExtKind, s.ExtKind}
		}
	}
	res.Nontrivial = totalData > 0
	res.Sample = map[string]any{"capture": flavour, "capture_bytes": len(capture), "packets": len(w.Tap), "mtu": w.MTU, "connections": conns, "reassembled_datagrams": len(tr.Reasm)}
	trace := func() {
		if res.Trace != nil {
			return
		}
		for i := range w.Tap {
			r := &w.Tap[i]
			if len(res.Trace) >= 400 {
				res.Trace = append(res.Trace, fmt.Sprintf("... %d more packets", len(w.Tap)-i))
				break
			}
			l := fmt.Sprintf("%4d t=%dns conn%d %s [%s] seq=isn+%d len=%d xmit=%d", i, r.T, r.Conn, [2]string{"c>s", "s>c"}[r.Side], netsim.FlagString(r.Flags), r.SeqOff, r.PayLen, r.Xmit)
			if r.NFrag > 1 {
				l += fmt.Sprintf(" frag %d/%d", r.Frag+1, r.NFrag)
			}
			if r.Omitted {
				l += " OMITTED-BY-TAP"
			}
			res.Trace = append(res.Trace, l)
		}
	}
	if rc.Replay {
		trace()
	}

	// run the real fq on the capture: mostly decode.Decode through the
	// registry and the value tree; one run in 48 the whole command line
	// program on the simulated OS with the jq query and JSON output (75 ms of
	// fixed cost per run)
	phase = "fq"
	format := "pcap"
	if spec.IsPcapng() {
		format = "pcapng"
	}
	var flows *hnetFlows
	fail := func(oracle, detail string) *core.RunResult {
		trace()
		report(oracle, key, detail)
		return res
	}
	if rc.T.Intn(48) == 47 {
		res.Extra["full_cli_runs"]++
		o := simos.New(rc.T)
		name, query := "cap."+format, hnetQuery+" f | tojson"
		if spec.IsPcapng() {
			query = hnetQuery + " [.[] | f] | tojson"
		}
		o.AddFile(name, simos.Regular, capture)
		o.ArgsV = []string{"fq", "-d", format, "-r", query, name}
		out := simos.RunFQ(o, interp.DefaultRegistry)
		phase = "oracle"
		if out.Exit != 0 || len(out.Stderr) != 0 {
			return fail("decode-failed", fmt.Sprintf("fq exit %d, stderr %.300q", out.Exit, out.Stderr))
		}
		js := bytes.TrimSpace(out.Stdout)
		var secs []hnetFlowsJ
		var err error
		if spec.IsPcapng() {
			err = json.Unmarshal(js, &secs)
		} else {
			secs = make([]hnetFlowsJ, 1)
			err = json.Unmarshal(js, &secs[0])
		}
		if err != nil {
			return fail("decode-failed", fmt.Sprintf("output is not the expected JSON: %v: %.200q", err, js))
		}
		if len(secs) != 1 {
			return fail("section-count", fmt.Sprintf("one section written, %d reported", len(secs)))
		}
		if flows, err = secs[0].flows(); err != nil {
			return fail("decode-failed", err.Error())
		}
	} else {
		group, err := interp.DefaultRegistry.Group(format)
		if err != nil {
			res.Violate("HARNESS", "registry", format, err.Error())
			return res
		}
		dv, _, err := decode.Decode(context.Background(), bitio.NewBitReader(capture, -1), group, decode.Options{IsRoot: true, FillGaps: true, Description: "cap." + format})
		phase = "oracle"
		if dv == nil {
			return fail("decode-failed", fmt.Sprintf("decode failed: %v", err))
		}
		if derr := dv.Errors(); err != nil || len(derr) != 0 {
			return fail("decode-failed", fmt.Sprintf("decode reported errors: %v %v", err, derr))
		}
		root := dv
		if spec.IsPcapng() {
			secs := hnetElems(dv)
			if len(secs) != 1 {
				return fail("section-count", fmt.Sprintf("one section written, %d reported", len(secs)))
			}
			root = secs[0]
		}
		if flows, err = hnetExtract(root); err != nil {
			return fail("decode-failed", err.Error())
		}
	}

	nv := len(res.Violations)
	hnetCheck(flows, tr, params, key, report, res)
	if len(res.Violations) > nv {
		trace()
	}
	return res
}

func fragFeat(r *netsim.Reasm) string {
	if r.EqLen {
		return "frag-eqlen/"
	}
	if r.Disorder {
		return "fragorder/"
	}
	return "plain/"
}

// hnetCheck is the oracle of C19.
func hnetCheck(flows *hnetFlows, tr *netsim.Truth, params netsim.Params, key string, report func(oracle, k, detail string), res *core.RunResult) {
	if len(flows.Conns) != len(tr.Conns) {
		var got []string
		for _, c := range flows.Conns {
			got = append(got, fmt.Sprintf("%s:%d>%s:%d", c.Client.IP, c.Client.Port, c.Server.IP, c.Server.Port))
		}
		// the feature: ipv6 when a connection carried over IPv6 is not listed
		// with its endpoints, or a listed connection that was not made has an
		// IPv6 address
		feat := "plain/"
		matches := func(ct *netsim.ConnTruth, c *hnetConn) bool {
			a, b := &ct.Dirs[0], &ct.Dirs[1]
			fwd := c.Client.IP == addrString(a.Addr) && c.Client.Port == int(a.Port) && c.Server.IP == addrString(b.Addr) && c.Server.Port == int(b.Port)
			rev := c.Client.IP == addrString(b.Addr) && c.Client.Port == int(b.Port) && c.Server.IP == addrString(a.Addr) && c.Server.Port == int(a.Port)
			return fwd || rev
		}
		for i := range tr.Conns {
			found := false
			for j := range flows.Conns {
				found = found || matches(&tr.Conns[i], &flows.Conns[j])
			}
			if f := tr.Conns[i].AddrFeature(); !found && f != "plain" && feat != "ipv6-v4mapped/" {
				feat = f + "/"
			}
		}
		for j := range flows.Conns {
			found := false
			for i := range tr.Conns {
				found = found || matches(&tr.Conns[i], &flows.Conns[j])
			}
			if !found && feat == "plain/" && strings.Contains(flows.Conns[j].Client.IP+flows.Conns[j].Server.IP, ":") {
				feat = "ipv6/"
			}
		}
		report("connection-count", feat+key, fmt.Sprintf("the capture holds %d connections, %d reported: %v", len(tr.Conns), len(flows.Conns), got))
	}
	// IPv4 reassembly: every entry is a datagram the router fragmented, with
	// its addresses, protocol and payload; every datagram whose fragments are
	// all in the capture is listed, in order of completion
	used := make([]int, len(tr.Reasm))
	var firstSeen []int
	for i, g := range flows.Reasm {
		raw := g.Raw
		if len(raw) < 20 {
			report("ipv4-reassembly", "plain/"+key, fmt.Sprintf("entry %d: %d raw bytes", i, len(raw)))
			continue
		}
		id := uint16(raw[4])<<8 | uint16(raw[5])
		var src, dst [4]byte
		copy(src[:], raw[12:16])
		copy(dst[:], raw[16:20])
		m := -1
		for j := range tr.Reasm {
			if tr.Reasm[j].ID == id && tr.Reasm[j].Src == src && tr.Reasm[j].Dst == dst {
				m = j
			}
		}
		if m < 0 {
			report("ipv4-reassembly", "plain/"+key, fmt.Sprintf("entry %d (%s > %s id %d) is not a datagram whose fragments are all in the capture", i, ipString(src), ipString(dst), id))
			continue
		}
		want := &tr.Reasm[m]
		if used[m] == 0 {
			firstSeen = append(firstSeen, m)
		}
		used[m]++
		if !g.Decoded {
			report("ipv4-reassembly", fragFeat(want)+key, fmt.Sprintf("entry %d (id %d) is not decoded as an IPv4 packet", i, id))
			continue
		}
		payload := g.Payload
		if g.Src != ipString(want.Src) || g.Dst != ipString(want.Dst) || g.Proto != int(want.Proto) {
			report("ipv4-reassembly", fragFeat(want)+key, fmt.Sprintf("entry %d (id %d): %s > %s protocol %d reported, %s > %s protocol %d sent", i, id, g.Src, g.Dst, g.Proto, ipString(want.Src), ipString(want.Dst), want.Proto))
		}
		if !bytes.Equal(payload, want.Payload) || !bytes.Equal(raw[20:], want.Payload) {
			report("ipv4-reassembly", fragFeat(want)+key, fmt.Sprintf("entry %d (id %d) payload: %s", i, id, hnetFirstDiff(payload, want.Payload)))
		}
	}
	for j := range tr.Reasm {
		if used[j] == 0 {
			report("ipv4-reassembly", fragFeat(&tr.Reasm[j])+key, fmt.Sprintf("datagram %s > %s id %d (%d payload bytes) was fragmented and all fragments are in the capture, but it is not listed", ipString(tr.Reasm[j].Src), ipString(tr.Reasm[j].Dst), tr.Reasm[j].ID, len(tr.Reasm[j].Payload)))
		} else if used[j] > tr.Reasm[j].MaxCount {
			report("ipv4-reassembly", fragFeat(&tr.Reasm[j])+key, fmt.Sprintf("datagram id %d is listed %d times, the capture holds %d copies", tr.Reasm[j].ID, used[j], tr.Reasm[j].MaxCount))
		}
	}
	for k := 1; k < len(firstSeen); k++ {
		if firstSeen[k] < firstSeen[k-1] {
			report("ipv4-reassembly", "plain/"+key, fmt.Sprintf("reassembled datagrams are not listed in order of completion (%v)", firstSeen))
			break
		}
	}
	// the statement says nothing about the order in which connections are listed (a first
	// packet that arrives in IPv4 fragments reaches TCP only when its datagram is complete):
	// a connection is matched with the listed connection that has its two endpoints,
	// falling back to the position for the report when there is none
	usedConn := make([]bool, len(flows.Conns))
	findConn := func(ct *netsim.ConnTruth, pos int) int {
		a, b := &ct.Dirs[0], &ct.Dirs[1]
		for j := range flows.Conns {
			if usedConn[j] {
				continue
			}
			c, sv := &flows.Conns[j].Client, &flows.Conns[j].Server
			fwd := c.IP == addrString(a.Addr) && c.Port == int(a.Port) && sv.IP == addrString(b.Addr) && sv.Port == int(b.Port)
			rev := c.IP == addrString(b.Addr) && c.Port == int(b.Port) && sv.IP == addrString(a.Addr) && sv.Port == int(a.Port)
			if fwd || rev {
				return j
			}
		}
		if pos < len(flows.Conns) && !usedConn[pos] {
			return pos
		}
		return -1
	}
	for i := range tr.Conns {
		ct := &tr.Conns[i]
		fi := findConn(ct, i)
		if fi < 0 {
			continue // fewer connections listed than made: connection-count reports it
		}
		usedConn[fi] = true
		if fi != i {
			res.Extra["connection_listed_at_other_position"]++
		}
		got := [2]*hnetDir{&flows.Conns[fi].Client, &flows.Conns[fi].Server}
		// the client is the sender of the SYN. When the capture does not begin
		// with the client's SYN (the tap missed it) the statement does not say
		// which side is to be called client: then only the attribution of the
		// bytes to endpoint address and port is checked, whichever way round
		// the two directions are labelled
		if !ct.FirstIsSYN && !params.Wide {
			res.Extra["first_packet_not_client_syn"]++
			a, b := &ct.Dirs[0], &ct.Dirs[1]
			if got[0].IP == addrString(b.Addr) && got[0].Port == int(b.Port) && got[1].IP == addrString(a.Addr) && got[1].Port == int(a.Port) {
				got[0], got[1] = got[1], got[0]
				res.Extra["first_sender_labelled_client"]++
			}
		}
		endpointsOK := true
		for s := 0; s < 2; s++ {
			d := &ct.Dirs[s]
			if got[s].IP != addrString(d.Addr) || got[s].Port != int(d.Port) {
				endpointsOK = false
				report("endpoint-mismatch", ct.AddrFeature()+"/"+key, fmt.Sprintf("connection %d (order of first captured packet) %s: expected address %s port %d, reported address %s port %d",
					i, [2]string{"client", "server"}[s], addrString(d.Addr), d.Port, got[s].IP, got[s].Port))
			}
		}
		if !endpointsOK {
			continue
		}
		for s := 0; s < 2; s++ {
			d := &ct.Dirs[s]
			g := got[s]
			feat := d.Feature() + "/"
			res.Extra["dir_"+d.Feature()]++
			who := fmt.Sprintf("connection %d %s %s:%d (isn %d, %d bytes sent, %d data segments captured)", i, [2]string{"client", "server"}[s], g.IP, g.Port, d.ISS, len(d.Sent), d.DataSegs)
			stream := g.Stream
			if !g.HasStart {
				res.Extra["has_start_false"]++
			}
			switch {
			case bytes.Equal(stream, d.Expect):
			case d.Missing && len(stream) > len(d.Expect) && bytes.Equal(stream[:len(d.Expect)], d.Expect):
				report("invented-data", feat+key, fmt.Sprintf("%s: the capture lacks the stream from offset %d on, yet %d bytes are reported", who, len(d.Expect), len(stream)))
			default:
				report("stream-mismatch", feat+key, fmt.Sprintf("%s: %s; skipped_bytes=%d", who, hnetFirstDiff(stream, d.Expect), g.Skipped))
			}
			switch {
			case !d.Missing && g.Skipped != 0:
				report("skipped-nonzero", feat+key, fmt.Sprintf("%s: nothing is missing from the capture, skipped_bytes=%d", who, g.Skipped))
			case d.Missing && d.LaterData && g.Skipped == 0:
				report("skipped-not-signalled", feat+key, fmt.Sprintf("%s: the capture lacks offset %d and holds later data, skipped_bytes=0", who, len(d.Expect)))
			}
		}
	}
}
