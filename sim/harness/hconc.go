package harness

import (
	"bytes"
	"encoding/hex"
	"encoding/json"
	"fmt"
	"strings"

	"github.com/wader/fq/internal/simrt"
	"github.com/wader/fq/pkg/interp"
	"github.com/wader/fq/zzverif/sim/core"
	"github.com/wader/fq/zzverif/sim/corpus"
	"github.com/wader/fq/zzverif/sim/simos"
)

// H-CONC / C18 (DESIGN §3 C18). Real: the whole of fq per job (own Interp, own
// simulated OS), sharing the process-wide registry and every package-level
// table because it is one process. Jobs are parked at every disk call and
// every stdout write, so the interleaving granularity is one field read.
// Oracle: every job's (stdout, stderr, status) is byte-identical to the first
// lone execution of the same job in this worker process; race mode adds the
// race detector on serialised-unsynchronised executions.

func init() { core.Register(&hconc{}) }

type hconc struct{}

func (*hconc) Name() string { return "hconc" }

// concGarbage is an input no format accepts: probing it walks every registered
// decoder, which is what touches all lazily initialised process-wide state.
var concGarbage = func() []byte {
	b := make([]byte, 384)
	x := uint32(0x9e3779b9)
	for i := range b {
		x = x*1664525 + 1013904223
		b[i] = byte(x >> 24)
	}
	copy(b, "\x00\x01not any format\xff\xfe")
	return b
}()

type concJob struct {
	garbage  bool
	s        corpus.Sample
	prog     string
	optForce bool
	planKind int
	planAt   int
	key      string
}

// Programs whose lazy reads happen in tree-walk order. `tovalue | tojson` and
// torepr convert children in Go map iteration order, so the order of their
// disk calls - and with it the interleaving - would not replay.
var concProgs = []string{"dv", "d", "[.. | select(_is_scalar?) | tovalue?] | tojson", "[limit(200; .. | select(_is_scalar?) | tobytes? | tohex)] | tojson",
	// the same expression text with and without flags, in different jobs of one process
	`[limit(200; .. | select(_is_scalar?) | tobytes? | test("[a-z]"; "b"))] | map(select(.)) | length`,
	`[limit(200; .. | select(_is_scalar?) | tobytes? | test("[a-z]"; "bi"))] | map(select(.)) | length`}

// regexp programs and whether they match case-insensitively
var concRegexProgs = map[string]bool{concProgs[4]: false, concProgs[5]: true}

// concPool is a fixed subset of the small samples - one per format first, so
// that lone references are computed once per worker and reused: the cost of a
// run is then the interleaved execution, not its references.
var concPoolCache []corpus.Sample

func concPool() []corpus.Sample {
	if concPoolCache != nil {
		return concPoolCache
	}
	all := corpus.MaxSize(4 * 1024)
	seen := map[string]bool{}
	var pool []corpus.Sample
	for _, s := range all {
		if s.Format == "" || seen[s.Format] {
			continue
		}
		seen[s.Format] = true
		pool = append(pool, s)
	}
	// a few probed samples and second samples of common formats
	n := 0
	for _, s := range all {
		if s.Format == "" && n < 8 && len(s.Opts) == 0 {
			pool = append(pool, s)
			n++
		}
	}
	if len(pool) > 72 {
		pool = pool[:72]
	}
	concPoolCache = pool
	return pool
}

type concRef struct {
	stdout, stderr []byte
	exit           int
	disklog        string
}

// first lone execution of each job spec in this process
var concRefs = map[string]*concRef{}

func (j *concJob) newOS(t *simrt.Tape) *simos.OS {
	o := simos.New(t)
	// a planned fault is addressed by disk call number: keep the call sequence
	// of such a job independent of tape-drawn short reads
	o.Disk.Benign = j.planKind == simos.PlanNone
	o.Disk.PlanKind, o.Disk.PlanAt = j.planKind, j.planAt
	if j.garbage {
		o.AddFile("sample", simos.Regular, concGarbage)
		o.ArgsV = []string{"fq", ".", "sample"}
		return o
	}
	o.AddFile("sample", simos.Regular, corpus.Data(j.s))
	args := []string{"fq"}
	if j.s.Format != "" {
		args = append(args, "-d", j.s.Format)
	}
	for _, kv := range j.s.Opts {
		args = append(args, "-o", kv)
	}
	if j.optForce {
		args = append(args, "-o", "force=true")
	}
	args = append(args, j.prog, "sample")
	o.ArgsV = args
	return o
}

var concRuns int

func (*hconc) Run(rc *core.RunCtx) *core.RunResult {
	res := core.NewResult()
	t := rc.T
	concRuns++
	samples := concPool()
	if len(samples) == 0 {
		res.Violate("HARNESS", "no-corpus", "hconc", "no samples harvested")
		return res
	}
	maxJobs := 6
	if rc.Race {
		maxJobs = 4
	}
	k := 2 + t.Intn(maxJobs-1)
	var jobs []*concJob
	for i := 0; i < k; i++ {
		var j *concJob
		collide := 3
		if rc.Race {
			collide = 2 // two jobs inside the same decoder are what the race detector needs
		}
		if i == 1 && rc.Race {
			// identical twins: whatever package-level state the decoder of job0 writes, job1
			// writes too - unsynchronised, the detector reports it
			c := *jobs[0]
			j = &c
		} else if i > 0 && t.Intn(collide) == 0 {
			// deliberate collision: the same file again, maybe with another program or option
			p := jobs[t.Intn(len(jobs))]
			c := *p
			j = &c
			if t.Intn(2) == 0 {
				j.prog = concProgs[t.Intn(len(concProgs))]
			}
			if t.Intn(4) == 0 && j.s.Format != "" {
				j.optForce = !j.optForce
			}
		} else {
			si := t.Intn(len(samples))
			if i == 0 {
				// consecutive run indices walk the pool so that every format gets its turn
				si = (rc.Idx + t.Intn(2)) % len(samples)
			}
			j = &concJob{s: samples[si], prog: concProgs[t.Intn(len(concProgs))]}
			if rc.Race && i == 0 {
				// the twins of a race run display every value: all lazy conversions of the decoder run
				j.prog = concProgs[t.Intn(3)]
			}
			j.optForce = t.Intn(8) == 0 && j.s.Format != ""
			if (i == 0 && rc.Race && concRuns == 1) || t.Intn(12) == 0 {
				// probing garbage walks every decoder: in the first run of a race worker
				// (twins, everything lazy still cold) and now and then elsewhere
				j.garbage = true
				j.optForce = false
			}
		}
		j.planKind, j.planAt = simos.PlanNone, 0
		if t.Intn(10) == 0 {
			// a job that fails mid-way next to succeeding ones
			j.planKind = []int{simos.PlanTransient, simos.PlanPersistent, simos.PlanEOF}[t.Intn(3)]
			j.planAt = t.Intn(40)
			if t.Intn(2) == 0 {
				// later: inside the lazy reads of the display, not the decode
				j.planAt = t.Intn(600)
			}
		}
		jobs = append(jobs, j)
	}
	// a regexp job brings its twin with the other flags: the same expression text
	// evaluated both ways within one run, whatever the process has seen before
	for _, j := range append([]*concJob(nil), jobs...) {
		if _, ok := concRegexProgs[j.prog]; ok && !j.garbage && j.planKind == simos.PlanNone && len(jobs) < maxJobs+1 {
			c := *j
			c.prog = concProgs[4]
			if j.prog == concProgs[4] {
				c.prog = concProgs[5]
			}
			jobs = append(jobs, &c)
		}
	}
	knobs := map[string]int{"cacheReadAheadSize": []int{1, 7, 64, 64, 4096, 4096}[t.Intn(6)], "progressPrecision": precKnobs[t.Intn(len(precKnobs))]}
	for _, j := range jobs {
		j.key = fmt.Sprintf("%s|%s|%v|%s|%v", j.s.Rel, j.s.Format, j.s.Opts, j.prog, j.optForce)
		if j.garbage {
			j.key = "garbage under the probe"
		}
		if j.planKind != simos.PlanNone {
			// where the k-th disk call lands depends on the cache size
			j.key += fmt.Sprintf("|%d@%d|%v", j.planKind, j.planAt, knobs)
		}
	}

	// lone references (first lone execution in this process); in race mode the
	// references are skipped: the functional oracle runs in the plain build
	if !rc.Race {
		var keep []*concJob
		for _, j := range jobs {
			if ref, ok := concRefs[j.key]; ok {
				if ref != nil {
					keep = append(keep, j)
				}
				continue
			}
			o := j.newOS(t)
			r := runFQ(t, o, fqOpts{Policy: simrt.PolSequential, Knobs: knobs})
			res.Steps += r.Stats.Steps
			// a job that crashes, hangs or deadlocks all by itself says nothing about
			// isolation (C06 reports crashes): it is dropped from the interleaving
			if !r.abnormal(res, "C06", "lone run of "+j.key) {
				concRefs[j.key] = nil
				res.Inconclusive = ""
				res.Probes["lone_run_abnormal_dropped"]++
				continue
			}
			concRefs[j.key] = &concRef{stdout: append([]byte(nil), r.Res.Stdout...), stderr: append([]byte(nil), r.Res.Stderr...), exit: r.Res.Exit, disklog: o.Disk.LogString()}
			res.Probes["lone_references"]++
			keep = append(keep, j)
		}
		jobs = keep
		if len(jobs) == 0 {
			return res
		}
	}

	// interleaved execution
	pol := []int{simrt.PolSticky8, simrt.PolSticky8, simrt.PolSticky64, simrt.PolSticky64, simrt.PolPCT, simrt.PolSticky2, simrt.PolUniform, simrt.PolSequential}[t.Intn(8)]
	sim := simrt.New(t, pol, 6000000)
	sim.WatchdogMs = 10000
	// jobs interleave at every disk call and terminal write; statement-level
	// pre-emption inside the ctx reader is H-IO's and H-CTX's business
	sim.Coarse = t.Intn(4) != 0
	sim.SetKnob("cacheReadAheadSize", knobs["cacheReadAheadSize"])
	sim.SetKnob("progressPrecision", knobs["progressPrecision"])
	oss := make([]*simos.OS, len(jobs))
	outs := make([]simos.Result, len(jobs))
	for i, j := range jobs {
		i, j := i, j
		oss[i] = j.newOS(t)
		sim.Spawn(fmt.Sprintf("job%d", i), false, func() {
			outs[i] = simos.RunFQ(oss[i], interp.DefaultRegistry)
		})
	}
	end := sim.Run()
	st := sim.Stats()
	res.Steps += st.Steps
	res.SimNanos += st.SimNanos
	res.Switches += st.Switches
	res.Pairs = sim.Pairs()
	res.Fingerprint = st.Fingerprint
	panicVal, panicStack, panicTask := sim.PanicVal, sim.PanicStack, sim.PanicTask
	blocked := sim.BlockedTasks()
	var trace []string
	if end != simrt.EndAllDone {
		trace = sim.Trace()
	}
	sim.Close()
	var descr []string
	for i, j := range jobs {
		if j.garbage {
			descr = append(descr, fmt.Sprintf("job%d: garbage under the probe fault=%d@%d", i, j.planKind, j.planAt))
		} else {
			descr = append(descr, fmt.Sprintf("job%d: %s -d %s %q force=%v fault=%d@%d", i, j.s.Rel, j.s.Format, j.prog, j.optForce, j.planKind, j.planAt))
		}
		for c, n := range oss[i].Disk.Counts {
			if n > 0 {
				res.Faults[simos.FaultNames[c]] += n
			}
		}
	}
	res.Sample = map[string]any{"jobs": descr, "policy": st.Policy, "knobs": fmt.Sprint(knobs), "steps": st.Steps, "switches": st.Switches}
	res.Nontrivial = st.Switches > len(jobs)
	res.Probes["jobs"] += len(jobs)
	switch end {
	case simrt.EndPanic:
		fn, class := core.PanicKey(panicVal, panicStack)
		if strings.HasPrefix(fn, "unknown") {
			res.Violate("HARNESS", "panic", "hconc", panicVal+"\n"+panicStack)
		} else {
			res.Violate("C18", "panic", fn+":"+class, fmt.Sprintf("task %s panicked while jobs ran interleaved: %s\n  %s\n%s", panicTask, panicVal, strings.Join(descr, "\n  "), panicStack))
		}
		res.Trace = trace
		return res
	case simrt.EndDeadlock:
		res.Violate("C18", "deadlock", strings.Join(blocked, ","), "interleaved jobs blocked forever: "+strings.Join(blocked, ", ")+"\n  "+strings.Join(descr, "\n  "))
		res.Trace = trace
		return res
	case simrt.EndBudget:
		res.Inconclusive = "step budget exhausted"
		return res
	}
	if rc.Race {
		return res
	}
	for i, j := range jobs {
		ref := concRefs[j.key]
		got := outs[i]
		if j.planKind != simos.PlanNone {
			// a job with an injected disk fault is there as interference (a failing
			// decode next to succeeding ones); what exactly it prints depends on
			// which of its reads the fault hits and is not compared
			res.Probes["faulted_jobs"]++
			continue
		}
		if flag, isRe := concRegexProgs[j.prog]; isRe && got.Exit == 0 {
			// reference model for the regexp programs: the count follows from the
			// job's own scalar values, whatever was compiled earlier in this process
			sib := *j
			sib.prog = concProgs[3]
			sib.key = fmt.Sprintf("%s|%s|%v|%s|%v", sib.s.Rel, sib.s.Format, sib.s.Opts, sib.prog, sib.optForce)
			sref, ok := concRefs[sib.key]
			if !ok {
				o := sib.newOS(t)
				r := runFQ(t, o, fqOpts{Policy: simrt.PolSequential, Knobs: knobs})
				res.Steps += r.Stats.Steps
				if r.End == simrt.EndAllDone {
					sref = &concRef{stdout: append([]byte(nil), r.Res.Stdout...), exit: r.Res.Exit}
				}
				concRefs[sib.key] = sref
			}
			var vals []any
			var enc string // tojson output, printed as a JSON string
			if sref != nil && sref.exit == 0 && json.Unmarshal(bytes.TrimSpace(sref.stdout), &enc) == nil && json.Unmarshal([]byte(enc), &vals) == nil {
				n := 0
				for _, v := range vals {
					str, _ := v.(string)
					raw, _ := hex.DecodeString(str)
					hit := false
					for _, c := range raw {
						if c >= 'a' && c <= 'z' || flag && c >= 'A' && c <= 'Z' {
							hit = true
						}
					}
					if hit {
						n++
					}
				}
				res.Probes["regexp_model_checked"]++
				if want := fmt.Sprintf("%d\n", n); string(got.Stdout) != want {
					res.Violate("C18", "differs-from-model", "regexp-flags", fmt.Sprintf("job%d (%s -d %s %q) printed %q; its own scalar byte ranges match the expression in %d cases: what an evaluation compiled depends on earlier evaluations in the process\n  %s",
						i, j.s.Rel, j.s.Format, j.prog, firstN(string(got.Stdout), 60), n, strings.Join(descr, "\n  ")))
					return res
				}
			}
		}
		which := ""
		switch {
		case !bytes.Equal(got.Stdout, ref.stdout):
			which = "stdout"
		case !bytes.Equal(got.Stderr, ref.stderr):
			which = "stderr"
		case got.Exit != ref.exit:
			which = "status"
		}
		if which != "" {
			d := firstDiff(got.Stdout, ref.stdout)
			res.Violate("C18", "differs-from-lone-run", which, fmt.Sprintf("job%d (%s -d %s %q) run interleaved with %d other jobs differs from its lone run in %s (stdout %d vs %d bytes, first difference at %d; status %d vs %d)\n  interleaved: %q\n  lone:        %q\n  stderr interleaved: %q\n  stderr lone:        %q\n  %s",
				i, j.s.Rel, j.s.Format, j.prog, len(jobs)-1, which, len(got.Stdout), len(ref.stdout), d, got.Exit, ref.exit,
				ctxAround(got.Stdout, d), ctxAround(ref.stdout, d), firstN(string(got.Stderr), 300), firstN(string(ref.stderr), 300), strings.Join(descr, "\n  ")+"\n  disk calls interleaved: "+oss[i].Disk.LogString()+"\n  disk calls lone:        "+ref.disklog))
			return res
		}
		if got.Exit != 0 {
			res.Probes["failing_jobs"]++
		}
	}
	// history dimension: repeat one job alone now, after everything else ran in this process
	j := jobs[t.Intn(len(jobs))]
	if j.planKind != simos.PlanNone {
		return res
	}
	o := j.newOS(t)
	r := runFQ(t, o, fqOpts{Policy: simrt.PolSequential, Knobs: knobs})
	res.Steps += r.Stats.Steps
	if !r.abnormal(res, "C18", "repeated lone run of "+j.key) {
		return res
	}
	ref := concRefs[j.key]
	if !bytes.Equal(r.Res.Stdout, ref.stdout) || !bytes.Equal(r.Res.Stderr, ref.stderr) || r.Res.Exit != ref.exit {
		d := firstDiff(r.Res.Stdout, ref.stdout)
		res.Violate("C18", "state-leak", "repeat", fmt.Sprintf("%s repeated alone after other decodes differs from its first lone run (first stdout difference at %d, status %d vs %d)\n  now:   %q\n  first: %q\n  stderr now:   %q\n  stderr first: %q", j.key, d, r.Res.Exit, ref.exit, ctxAround(r.Res.Stdout, d), ctxAround(ref.stdout, d), firstN(string(r.Res.Stderr), 400), firstN(string(ref.stderr), 400)))
	}
	res.Probes["repeat_checked"]++
	return res
}

func ctxAround(b []byte, at int) string {
	lo := at - 60
	if lo < 0 {
		lo = 0
	}
	hi := at + 100
	if hi > len(b) {
		hi = len(b)
	}
	if lo > hi {
		lo = hi
	}
	return string(b[lo:hi])
}
