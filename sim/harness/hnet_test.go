package harness

// Self-test of the C19 oracle (no fq involved): a report built from the ground
// truth passes, and every kind of corruption of that report is noticed with
// the expected violation class. Needs the instrumentation overlay because the
// package imports internal/simrt:
//
//	go test -overlay $D/ov/overlay.json -run Hnet ./sim/harness

import (
	"testing"

	"github.com/wader/fq/internal/simrt"
	"github.com/wader/fq/zzverif/sim/core"
	"github.com/wader/fq/zzverif/sim/netsim"
)

func hnetPerfect(tr *netsim.Truth) *hnetFlows {
	f := &hnetFlows{}
	for i := range tr.Conns {
		var c hnetConn
		for s, d := range []*hnetDir{&c.Client, &c.Server} {
			t := &tr.Conns[i].Dirs[s]
			d.IP, d.Port, d.HasStart = addrString(t.Addr), int(t.Port), true
			d.Stream = append([]byte(nil), t.Expect...)
			if t.Missing && t.LaterData {
				d.Skipped = 7
			}
		}
		f.Conns = append(f.Conns, c)
	}
	for _, r := range tr.Reasm {
		raw := make([]byte, 20, 20+len(r.Payload))
		raw[0] = 0x45
		raw[4], raw[5] = byte(r.ID>>8), byte(r.ID)
		raw[9] = r.Proto
		copy(raw[12:], r.Src[:])
		copy(raw[16:], r.Dst[:])
		raw = append(raw, r.Payload...)
		f.Reasm = append(f.Reasm, hnetReasm{Raw: raw, Decoded: true, Src: ipString(r.Src), Dst: ipString(r.Dst), Proto: int(r.Proto), Payload: append([]byte(nil), r.Payload...)})
	}
	return f
}

func hnetVerdict(f *hnetFlows, tr *netsim.Truth, p netsim.Params) map[string]int {
	got := map[string]int{}
	res := core.NewResult()
	hnetCheck(f, tr, p, "pcap", func(oracle, k, detail string) { got[oracle]++ }, res)
	return got
}

func TestHnetOracleSensitivity(t *testing.T) {
	fired := map[string]int{}
	expect := func(seed int, what string, got map[string]int, oracle string) {
		t.Helper()
		if got[oracle] == 0 {
			t.Fatalf("seed %d: %s not noticed as %s (got %v)", seed, what, oracle, got)
		}
		fired[what]++
	}
	for _, p := range []netsim.Params{{}, {Omission: true}, {Snaplen: true}, {NoSYN: true}, {Large: true}} {
		for seed := 0; seed < 250; seed++ {
			tape := simrt.NewTape(simrt.Mix(4242, uint64(seed)))
			w := netsim.Generate(tape, p)
			w.Run()
			if w.Err != "" {
				t.Fatalf("seed %d: %s", seed, w.Err)
			}
			netsim.WriteCapture(w, netsim.DrawCaptureSpec(tape, p, w)) // the snap length decides what the capture holds
			tr := netsim.ComputeTruth(w)
			if v := hnetVerdict(hnetPerfect(tr), tr, p); len(v) != 0 {
				t.Fatalf("seed %d: a report equal to the ground truth is rejected: %v", seed, v)
			}
			// streams
			for i := range tr.Conns {
				for s := 0; s < 2; s++ {
					d := &tr.Conns[i].Dirs[s]
					dir := func(f *hnetFlows) *hnetDir {
						if s == 0 {
							return &f.Conns[i].Client
						}
						return &f.Conns[i].Server
					}
					if n := len(d.Expect); n > 0 {
						f := hnetPerfect(tr)
						dir(f).Stream[n/2] ^= 0x01
						expect(seed, "flipped stream bit", hnetVerdict(f, tr, p), "stream-mismatch")
						f = hnetPerfect(tr)
						dir(f).Stream = dir(f).Stream[:n-1]
						expect(seed, "stream one byte short", hnetVerdict(f, tr, p), "stream-mismatch")
						if n > 1 {
							f = hnetPerfect(tr)
							st := dir(f).Stream
							st[n-1] = st[n-2] // what the sequence wrap defect does
							if d.Expect[n-1] != d.Expect[n-2] {
								expect(seed, "last byte repeated", hnetVerdict(f, tr, p), "stream-mismatch")
							}
						}
					}
					f := hnetPerfect(tr)
					dir(f).Stream = append(dir(f).Stream, 0x55)
					if d.Missing {
						expect(seed, "data beyond the hole", hnetVerdict(f, tr, p), "invented-data")
					} else {
						expect(seed, "extra byte", hnetVerdict(f, tr, p), "stream-mismatch")
						f = hnetPerfect(tr)
						dir(f).Skipped = 3
						expect(seed, "skipped without a hole", hnetVerdict(f, tr, p), "skipped-nonzero")
					}
					if d.Missing && d.LaterData {
						f = hnetPerfect(tr)
						dir(f).Skipped = 0
						expect(seed, "hole not signalled", hnetVerdict(f, tr, p), "skipped-not-signalled")
					}
				}
				f := hnetPerfect(tr)
				f.Conns[i].Client, f.Conns[i].Server = f.Conns[i].Server, f.Conns[i].Client
				if tr.Conns[i].FirstIsSYN {
					expect(seed, "client and server swapped", hnetVerdict(f, tr, p), "endpoint-mismatch")
				} else {
					// the capture does not begin with the client's SYN: either labelling
					// is accepted as long as bytes go with their address and port
					if v := hnetVerdict(f, tr, p); len(v) != 0 {
						t.Fatalf("seed %d: first sender labelled client rejected although the SYN is not in the capture: %v", seed, v)
					}
					fired["either labelling accepted without SYN"]++
					// ... but not the addresses swapped under the streams
					f = hnetPerfect(tr)
					c := &f.Conns[i]
					c.Client.IP, c.Server.IP = c.Server.IP, c.Client.IP
					c.Client.Port, c.Server.Port = c.Server.Port, c.Client.Port
					a, b := &tr.Conns[i].Dirs[0], &tr.Conns[i].Dirs[1]
					if string(a.Expect) != string(b.Expect) {
						expect(seed, "endpoints swapped under the streams", hnetVerdict(f, tr, p), "stream-mismatch")
					}
				}
				f = hnetPerfect(tr)
				f.Conns[i].Client.Port ^= 1
				expect(seed, "wrong port", hnetVerdict(f, tr, p), "endpoint-mismatch")
				if tr.Conns[i].Dirs[1].V6 {
					f = hnetPerfect(tr)
					f.Conns[i].Server.IP += "0" // another address, still well formed
					expect(seed, "ipv6 address wrong", hnetVerdict(f, tr, p), "endpoint-mismatch")
				}
			}
			f := hnetPerfect(tr)
			f.Conns = f.Conns[:len(f.Conns)-1]
			expect(seed, "connection missing", hnetVerdict(f, tr, p), "connection-count")
			f = hnetPerfect(tr)
			f.Conns = append(f.Conns, f.Conns[0])
			expect(seed, "connection listed twice", hnetVerdict(f, tr, p), "connection-count")
			if len(tr.Conns) > 1 {
				f = hnetPerfect(tr)
				f.Conns[0], f.Conns[1] = f.Conns[1], f.Conns[0]
				// the statement does not fix the order of the listing: connections
				// are matched by their endpoints
				if v := hnetVerdict(f, tr, p); len(v) != 0 {
					t.Fatalf("seed %d: connections listed in another order rejected: %v", seed, v)
				}
				fired["connections out of order"]++
			}
			// reassembled datagrams
			if n := len(tr.Reasm); n > 0 {
				f = hnetPerfect(tr)
				f.Reasm = f.Reasm[1:]
				expect(seed, "reassembled datagram missing", hnetVerdict(f, tr, p), "ipv4-reassembly")
				f = hnetPerfect(tr)
				f.Reasm[n-1].Payload[len(f.Reasm[n-1].Payload)-1] ^= 0x80
				expect(seed, "reassembled payload corrupted", hnetVerdict(f, tr, p), "ipv4-reassembly")
				f = hnetPerfect(tr)
				f.Reasm[0].Raw[len(f.Reasm[0].Raw)-1] ^= 0x80
				expect(seed, "reassembled raw bytes corrupted", hnetVerdict(f, tr, p), "ipv4-reassembly")
				f = hnetPerfect(tr)
				f.Reasm[0].Src = "1.2.3.4"
				expect(seed, "reassembled source wrong", hnetVerdict(f, tr, p), "ipv4-reassembly")
				f = hnetPerfect(tr)
				f.Reasm[0].Decoded = false
				expect(seed, "reassembled entry not decoded", hnetVerdict(f, tr, p), "ipv4-reassembly")
				f = hnetPerfect(tr)
				f.Reasm[0].Raw[5] ^= 0x40 // another identification
				expect(seed, "unknown datagram listed", hnetVerdict(f, tr, p), "ipv4-reassembly")
				if n > 1 {
					f = hnetPerfect(tr)
					f.Reasm[0], f.Reasm[n-1] = f.Reasm[n-1], f.Reasm[0]
					expect(seed, "reassembled out of order", hnetVerdict(f, tr, p), "ipv4-reassembly")
				}
			}
		}
	}
	for _, what := range []string{"flipped stream bit", "stream one byte short", "last byte repeated", "data beyond the hole", "extra byte", "skipped without a hole", "hole not signalled",
		"client and server swapped", "either labelling accepted without SYN", "endpoints swapped under the streams", "wrong port", "connection missing", "connection listed twice", "connections out of order", "ipv6 address wrong", "reassembled datagram missing",
		"reassembled payload corrupted", "reassembled raw bytes corrupted", "reassembled source wrong", "reassembled entry not decoded", "unknown datagram listed", "reassembled out of order"} {
		if fired[what] == 0 {
			t.Errorf("corruption %q was never exercised", what)
		}
	}
	t.Logf("corruptions exercised: %v", fired)
}

// The textual form of IPv6 addresses the oracle expects (RFC 5952 section 4
// and its examples; written without net/netip).
func TestHnetIP6String(t *testing.T) {
	for _, c := range []struct {
		groups [8]uint16
		want   string
	}{
		{[8]uint16{0x2001, 0xdb8, 0, 0, 0, 0, 0, 1}, "2001:db8::1"},
		{[8]uint16{0x2001, 0xdb8, 0, 0, 1, 0, 0, 1}, "2001:db8::1:0:0:1"},    // first of two equal runs
		{[8]uint16{0x2001, 0xdb8, 0, 1, 1, 1, 1, 1}, "2001:db8:0:1:1:1:1:1"}, // a single zero group is not shortened
		{[8]uint16{0x2001, 0, 0, 1, 0, 0, 0, 1}, "2001:0:0:1::1"},            // the longest run
		{[8]uint16{0, 0, 0, 0, 0, 0, 0, 0}, "::"},
		{[8]uint16{0, 0, 0, 0, 0, 0, 0, 1}, "::1"},
		{[8]uint16{1, 0, 0, 0, 0, 0, 0, 0}, "1::"},
		{[8]uint16{0xfe80, 0, 0, 0, 0x0211, 0x22ff, 0xfe33, 0x4455}, "fe80::211:22ff:fe33:4455"},
		{[8]uint16{0x2001, 0x0db8, 0x00a0, 0x000b, 0xabcd, 0xef01, 0x2345, 0x6789}, "2001:db8:a0:b:abcd:ef01:2345:6789"},
		{[8]uint16{0, 0, 0, 0, 0, 0xffff, 0xc000, 0x0201}, "::ffff:192.0.2.1"}, // section 5
		{[8]uint16{0, 0, 0, 0, 0, 0, 0xc000, 0x0201}, "::c000:201"},
		{[8]uint16{0, 1, 0, 0, 2, 0, 0, 0}, "0:1:0:0:2::"},
	} {
		var a [16]byte
		for i, g := range c.groups {
			a[2*i], a[2*i+1] = byte(g>>8), byte(g)
		}
		if got := ip6String(a); got != c.want {
			t.Errorf("%x: %q, want %q", a, got, c.want)
		}
	}
}
