package netsim

import (
	"errors"
	"fmt"
)

// TCP flags.
const (
	FlagFIN = 0x01
	FlagSYN = 0x02
	FlagRST = 0x04
	FlagPSH = 0x08
	FlagACK = 0x10
)

func FlagString(f uint8) string {
	s := ""
	if f&FlagSYN != 0 {
		s += "S"
	}
	if f&FlagFIN != 0 {
		s += "F"
	}
	if f&FlagRST != 0 {
		s += "R"
	}
	if f&FlagPSH != 0 {
		s += "P"
	}
	if f&FlagACK != 0 {
		s += "."
	}
	return s
}

func put16(b []byte, v uint16) { b[0], b[1] = byte(v>>8), byte(v) }
func put32(b []byte, v uint32) {
	b[0], b[1], b[2], b[3] = byte(v>>24), byte(v>>16), byte(v>>8), byte(v)
}
func get16(b []byte) uint16 { return uint16(b[0])<<8 | uint16(b[1]) }
func get32(b []byte) uint32 {
	return uint32(b[0])<<24 | uint32(b[1])<<16 | uint32(b[2])<<8 | uint32(b[3])
}

// onesSum adds b to a running 32 bit ones' complement sum (big-endian words,
// odd trailing byte padded with zero).
func onesSum(sum uint32, b []byte) uint32 {
	n := len(b)
	i := 0
	for ; i+1 < n; i += 2 {
		sum += uint32(b[i])<<8 | uint32(b[i+1])
		if sum > 0x7fffffff {
			sum = (sum & 0xffff) + (sum >> 16)
		}
	}
	if i < n {
		sum += uint32(b[i]) << 8
	}
	return sum
}

func foldSum(sum uint32) uint16 {
	for sum>>16 != 0 {
		sum = (sum & 0xffff) + (sum >> 16)
	}
	return ^uint16(sum)
}

// buildTCP returns a TCP segment (header, options, payload) with a correct
// checksum over the IPv4 pseudo header.
func buildTCP(src, dst [4]byte, sp, dp uint16, seq, ack uint32, flags uint8, win uint16, opts []byte, payload []byte) []byte {
	if len(opts)%4 != 0 {
		panic("netsim: TCP options not padded")
	}
	hl := 20 + len(opts)
	b := make([]byte, hl+len(payload))
	put16(b[0:], sp)
	put16(b[2:], dp)
	put32(b[4:], seq)
	put32(b[8:], ack)
	b[12] = byte(hl/4) << 4
	b[13] = flags
	put16(b[14:], win)
	copy(b[20:], opts)
	copy(b[hl:], payload)
	put16(b[16:], tcpChecksum(src, dst, b))
	return b
}

func tcpChecksum(src, dst [4]byte, seg []byte) uint16 {
	var ph [12]byte
	copy(ph[0:], src[:])
	copy(ph[4:], dst[:])
	ph[9] = 6
	put16(ph[10:], uint16(len(seg)))
	sum := onesSum(0, ph[:])
	sum = onesSum(sum, seg[:16])
	sum = onesSum(sum, seg[18:])
	return foldSum(sum)
}

// buildIPv4 returns an IPv4 packet without options.
func buildIPv4(src, dst [4]byte, id uint16, flagsFrag uint16, ttl, tos, proto uint8, payload []byte) []byte {
	if 20+len(payload) > 65535 {
		panic("netsim: IPv4 packet too large")
	}
	b := make([]byte, 20+len(payload))
	b[0] = 0x45
	b[1] = tos
	put16(b[2:], uint16(len(b)))
	put16(b[4:], id)
	put16(b[6:], flagsFrag)
	b[8] = ttl
	b[9] = proto
	copy(b[12:], src[:])
	copy(b[16:], dst[:])
	copy(b[20:], payload)
	put16(b[10:], foldSum(onesSum(0, b[:20])))
	return b
}

const (
	ipDF = 0x4000
	ipMF = 0x2000
)

// fragmentIPv4 splits an unfragmented IPv4 packet (no options) so that no
// fragment is larger than mtu. Every fragment but the last carries a multiple
// of 8 payload bytes and the MF flag.
func fragmentIPv4(ip []byte, mtu int) [][]byte {
	if len(ip) <= mtu {
		return [][]byte{ip}
	}
	per := (mtu - 20) / 8 * 8
	if per < 8 {
		panic("netsim: mtu too small")
	}
	payload := ip[20:]
	var out [][]byte
	for off := 0; off < len(payload); off += per {
		end := off + per
		ff := uint16(off / 8)
		if end >= len(payload) {
			end = len(payload)
		} else {
			ff |= ipMF
		}
		f := make([]byte, 20+end-off)
		copy(f, ip[:20])
		put16(f[2:], uint16(len(f)))
		put16(f[6:], ff)
		put16(f[10:], 0)
		copy(f[20:], payload[off:end])
		put16(f[10:], foldSum(onesSum(0, f[:20])))
		out = append(out, f)
	}
	return out
}

type ipHdr struct {
	src, dst  [4]byte
	id        uint16
	mf, df    bool
	fragOff   int // bytes
	proto     uint8
	ttl, tos  uint8
	totalLen  int
	headerLen int
}

func parseIPv4(b []byte) (ipHdr, []byte, error) {
	var h ipHdr
	if len(b) < 20 || b[0]>>4 != 4 {
		return h, nil, errors.New("not IPv4")
	}
	h.headerLen = int(b[0]&15) * 4
	h.totalLen = int(get16(b[2:]))
	if h.headerLen < 20 || h.totalLen < h.headerLen || h.totalLen > len(b) {
		return h, nil, fmt.Errorf("bad IPv4 lengths ihl=%d total=%d have=%d", h.headerLen, h.totalLen, len(b))
	}
	if foldSum(onesSum(0, b[:h.headerLen])) != 0 {
		return h, nil, errors.New("bad IPv4 header checksum")
	}
	h.tos = b[1]
	h.id = get16(b[4:])
	ff := get16(b[6:])
	h.df = ff&ipDF != 0
	h.mf = ff&ipMF != 0
	h.fragOff = int(ff&0x1fff) * 8
	h.ttl = b[8]
	h.proto = b[9]
	copy(h.src[:], b[12:16])
	copy(h.dst[:], b[16:20])
	return h, b[h.headerLen:h.totalLen], nil
}

// reassembleIPv4 is the receiving host's reassembly: all fragments of one
// datagram in any order. It is deliberately written differently from the
// fragmenter (it places payloads by offset into a buffer and checks coverage).
func reassembleIPv4(frags [][]byte) ([]byte, error) {
	if len(frags) == 1 {
		h, _, err := parseIPv4(frags[0])
		if err != nil {
			return nil, err
		}
		if h.mf || h.fragOff != 0 {
			return nil, errors.New("single fragment is not a whole datagram")
		}
		return frags[0][:h.totalLen], nil
	}
	total := -1
	var first ipHdr
	haveFirst := false
	buf := make([]byte, 65535)
	cov := make([]bool, 65535/8+2)
	n := 0
	for _, f := range frags {
		h, p, err := parseIPv4(f)
		if err != nil {
			return nil, err
		}
		if h.fragOff%8 != 0 {
			return nil, errors.New("fragment offset not a multiple of 8")
		}
		if h.mf && len(p)%8 != 0 {
			return nil, errors.New("non-final fragment length not a multiple of 8")
		}
		if !h.mf {
			if total >= 0 {
				return nil, errors.New("two final fragments")
			}
			total = h.fragOff + len(p)
		}
		if h.fragOff == 0 {
			first, haveFirst = h, true
		}
		if h.fragOff+len(p) > 65515 {
			return nil, errors.New("fragment beyond 64 KiB")
		}
		copy(buf[h.fragOff:], p)
		for i := h.fragOff / 8; i < (h.fragOff+len(p)+7)/8; i++ {
			if cov[i] {
				return nil, errors.New("overlapping fragments")
			}
			cov[i] = true
		}
		n += len(p)
	}
	if total < 0 || !haveFirst || n != total {
		return nil, fmt.Errorf("incomplete datagram: have %d of %d", n, total)
	}
	for i := 0; i < (total+7)/8; i++ {
		if !cov[i] {
			return nil, errors.New("hole in datagram")
		}
	}
	return buildIPv4(first.src, first.dst, first.id, 0, first.ttl, first.tos, first.proto, buf[:total]), nil
}

type tcpHdr struct {
	sp, dp   uint16
	seq, ack uint32
	flags    uint8
	win      uint16
	opts     []byte
}

func parseTCP(src, dst [4]byte, seg []byte) (tcpHdr, []byte, error) {
	var h tcpHdr
	if len(seg) < 20 {
		return h, nil, errors.New("short TCP segment")
	}
	hl := int(seg[12]>>4) * 4
	if hl < 20 || hl > len(seg) {
		return h, nil, errors.New("bad TCP data offset")
	}
	if tcpChecksum(src, dst, seg) != get16(seg[16:]) {
		return h, nil, errors.New("bad TCP checksum")
	}
	return parseTCPFields(seg, hl), seg[hl:], nil
}

func parseTCPFields(seg []byte, hl int) tcpHdr {
	var h tcpHdr
	h.sp, h.dp = get16(seg[0:]), get16(seg[2:])
	h.seq, h.ack = get32(seg[4:]), get32(seg[8:])
	h.flags = seg[13]
	h.win = get16(seg[14:])
	h.opts = seg[20:hl]
	return h
}

// ---- IPv6 (RFC 8200) ----

// Addr is an endpoint address of either family. B holds the 4 bytes of an
// IPv4 address in B[:4] (rest zero) or the 16 bytes of an IPv6 address.
type Addr struct {
	V6 bool
	B  [16]byte
}

func addr4(ip [4]byte) Addr {
	var a Addr
	copy(a.B[:], ip[:])
	return a
}

func addr6(ip [16]byte) Addr { return Addr{V6: true, B: ip} }

func (a Addr) v4() [4]byte { return [4]byte{a.B[0], a.B[1], a.B[2], a.B[3]} }

// IPv6 next header values used here.
const (
	nhHopByHop = 0
	nhTCP      = 6
	nhDestOpts = 60
)

// tcpChecksum6 is the TCP checksum over the IPv6 pseudo header (RFC 8200
// section 8.1: source, destination, 32 bit upper-layer length, 3 zero bytes,
// next header = 6).
func tcpChecksum6(src, dst [16]byte, seg []byte) uint16 {
	var ph [40]byte
	copy(ph[0:], src[:])
	copy(ph[16:], dst[:])
	put32(ph[32:], uint32(len(seg)))
	ph[39] = nhTCP
	sum := onesSum(0, ph[:])
	sum = onesSum(sum, seg[:16])
	sum = onesSum(sum, seg[18:])
	return foldSum(sum)
}

// buildTCP6 is buildTCP with the checksum over the IPv6 pseudo header.
func buildTCP6(src, dst [16]byte, sp, dp uint16, seq, ack uint32, flags uint8, win uint16, opts []byte, payload []byte) []byte {
	b := buildTCP([4]byte{}, [4]byte{}, sp, dp, seq, ack, flags, win, opts, payload)
	put16(b[16:], tcpChecksum6(src, dst, b))
	return b
}

// extHeader6 returns a hop-by-hop or destination options header of 8*units
// bytes that holds nothing but padding (one PadN option, RFC 8200 4.2), with
// the next header field set to next.
func extHeader6(next uint8, units int) []byte {
	if units < 1 || units > 32 {
		panic("netsim: extension header size")
	}
	b := make([]byte, 8*units)
	b[0] = next
	b[1] = byte(units - 1) // length in 8 octet units, not counting the first
	b[2] = 1               // PadN
	b[3] = byte(len(b) - 4)
	return b
}

// buildIPv6 returns an IPv6 packet. ext, if not nil, is one extension header
// of kind extKind (its own next header field must name proto).
func buildIPv6(src, dst [16]byte, tclass uint8, flow uint32, hop uint8, proto uint8, extKind uint8, ext []byte, payload []byte) []byte {
	n := len(ext) + len(payload)
	if n > 65535 {
		panic("netsim: IPv6 payload too large")
	}
	b := make([]byte, 40+n)
	b[0] = 0x60 | tclass>>4
	b[1] = tclass<<4 | byte(flow>>16)&0x0f
	b[2] = byte(flow >> 8)
	b[3] = byte(flow)
	put16(b[4:], uint16(n))
	b[6] = proto
	if ext != nil {
		b[6] = extKind
	}
	b[7] = hop
	copy(b[8:], src[:])
	copy(b[24:], dst[:])
	copy(b[40:], ext)
	copy(b[40+len(ext):], payload)
	return b
}

type ip6Hdr struct {
	src, dst [16]byte
	tclass   uint8
	flow     uint32
	hop      uint8
	proto    uint8 // the upper-layer protocol after the extension headers
	extKinds []uint8
	totalLen int
}

// parseIPv6 is the receiving host's view: fixed header, then any chain of
// hop-by-hop / destination options headers whose options are all padding.
func parseIPv6(b []byte) (ip6Hdr, []byte, error) {
	var h ip6Hdr
	if len(b) < 40 || b[0]>>4 != 6 {
		return h, nil, errors.New("not IPv6")
	}
	plen := int(get16(b[4:]))
	if 40+plen > len(b) {
		return h, nil, fmt.Errorf("bad IPv6 payload length %d, have %d", plen, len(b)-40)
	}
	h.totalLen = 40 + plen
	h.tclass = b[0]<<4 | b[1]>>4
	h.flow = uint32(b[1]&0x0f)<<16 | uint32(b[2])<<8 | uint32(b[3])
	h.hop = b[7]
	copy(h.src[:], b[8:24])
	copy(h.dst[:], b[24:40])
	next := b[6]
	rest := b[40:h.totalLen]
	for next == nhHopByHop || next == nhDestOpts {
		if next == nhHopByHop && len(h.extKinds) > 0 {
			return h, nil, errors.New("hop-by-hop header not first")
		}
		if len(rest) < 8 {
			return h, nil, errors.New("short IPv6 extension header")
		}
		l := 8 * (int(rest[1]) + 1)
		if l > len(rest) {
			return h, nil, errors.New("IPv6 extension header beyond the packet")
		}
		for o := rest[2:l]; len(o) > 0; {
			switch {
			case o[0] == 0: // Pad1
				o = o[1:]
			case len(o) >= 2 && o[0] == 1 && 2+int(o[1]) <= len(o): // PadN
				o = o[2+int(o[1]):]
			default:
				return h, nil, errors.New("unexpected IPv6 option")
			}
		}
		h.extKinds = append(h.extKinds, next)
		next = rest[0]
		rest = rest[l:]
	}
	h.proto = next
	return h, rest, nil
}

// parseTCPAddr is parseTCP for either family.
func parseTCPAddr(src, dst Addr, seg []byte) (tcpHdr, []byte, error) {
	if !src.V6 {
		return parseTCP(src.v4(), dst.v4(), seg)
	}
	if len(seg) < 20 {
		return tcpHdr{}, nil, errors.New("short TCP segment")
	}
	hl := int(seg[12]>>4) * 4
	if hl < 20 || hl > len(seg) {
		return tcpHdr{}, nil, errors.New("bad TCP data offset")
	}
	if tcpChecksum6(src.B, dst.B, seg) != get16(seg[16:]) {
		return tcpHdr{}, nil, errors.New("bad TCP checksum (IPv6 pseudo header)")
	}
	return parseTCPFields(seg, hl), seg[hl:], nil
}
