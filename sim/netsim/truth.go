package netsim

// Truth is what a correct reader of the capture must report, derived from the
// tap records (what the capture contains) and the endpoints (what was sent).
// It uses no knowledge of how any particular reader reassembles.

type DirTruth struct {
	IP   [4]byte // the IPv4 address (zero when the connection is carried over IPv6)
	Addr Addr    // the address of either family
	// PeerAddr is the address of the other end of the connection
	PeerAddr Addr
	V6       bool // the direction was carried over IPv6
	// ExtKind: the IPv6 extension header in front of TCP (0 hop-by-hop, 60
	// destination options), -1 = none
	ExtKind int
	Port    uint16
	ISS     uint32
	Sent    []byte
	// Expect is Sent up to the first byte that the capture does not contain
	// (all of Sent when nothing is missing).
	Expect []byte
	// Missing: the capture lacks part of the stream.
	Missing bool
	// LaterData: the capture contains a data segment of this direction that
	// starts beyond the first missing byte.
	LaterData bool
	// Wrapped: the sequence numbers pass 2^32 between SYN and FIN.
	Wrapped bool
	// WrapBack: a packet that starts at a sequence number from before the
	// 2^32 wrap is captured after a packet of this direction that reached or
	// passed the wrap (retransmission, duplicate or reordering across the
	// wrap).
	WrapBack bool
	// FragDisorder: a fragmented datagram of this direction has its fragments
	// in the capture in another order than by offset.
	FragDisorder bool
	// FragEqLen: ... and the fragment captured last is, header included,
	// exactly as long as the payload of the whole datagram.
	FragEqLen bool
	// DataSegs is the number of captured data segments.
	DataSegs int
}

// Feature names the most specific property of the direction's history that a
// known finding may be keyed on. ipv6: the direction was carried over IPv6;
// ipv6-v4mapped: ... and one of the two addresses of the connection is an
// IPv4-mapped IPv6 address.
func (d *DirTruth) Feature() string {
	switch {
	case d.FragEqLen:
		return "frag-eqlen"
	case d.WrapBack:
		return "seqwrap-back"
	case d.FragDisorder:
		return "fragorder"
	case d.Wrapped:
		return "seqwrap"
	case d.V6 && (d.Addr.V4Mapped() || d.PeerAddr.V4Mapped()):
		return "ipv6-v4mapped"
	case d.V6:
		return "ipv6"
	}
	return "plain"
}

type ConnTruth struct {
	Idx      int // index into World.Conns
	Dirs     [2]DirTruth
	FirstRec int // index of the first captured tap record
	// FirstSide is the sender of the first captured packet (0 = the client,
	// always so unless the configuration is Wide).
	FirstSide  int
	FirstIsSYN bool
}

// Reasm is one datagram the router fragmented and the capture contains whole.
type Reasm struct {
	Src, Dst [4]byte
	ID       uint16
	Proto    uint8
	Payload  []byte
	Disorder bool // fragments captured in another order than by offset
	EqLen    bool // the fragment that completed it is, header included, as long as the payload of the whole datagram
	Count    int  // times a full set of its fragments completes in capture order
	MaxCount int  // copies of its least-captured fragment
	Xmit     int
}

type Truth struct {
	Conns []ConnTruth // in order of the first captured packet
	Reasm []Reasm     // in order of first completion
	// FragSeen lists (src, dst, id) of every fragmented transmission with at
	// least one captured fragment, complete or not.
	Holes int // directions with Missing
}

type fragState struct {
	last     int
	disorder bool
	eqlen    bool
	conn     int
	side     int
	xmit     int
	have     []bool
	n        int
	count    []int
	reasm    int // index into Truth.Reasm, -1
}

// ComputeTruth walks the capture in order.
func ComputeTruth(w *World) *Truth {
	tr := &Truth{}
	connAt := make([]int, len(w.Conns))
	for i := range connAt {
		connAt[i] = -1
	}
	cov := make([][2][]bool, len(w.Conns))
	for i, cn := range w.Conns {
		for s := 0; s < 2; s++ {
			cov[i][s] = make([]bool, len(cn.Ends[s].Data))
		}
	}
	seenPost := make([][2]bool, len(w.Conns))
	wrapBack := make([][2]bool, len(w.Conns))
	type segCap struct {
		conn, side, off, n int
	}
	var segs []segCap
	var fs []*fragState // few per run: linear search by transmission number
	for ri := range w.Tap {
		r := &w.Tap[ri]
		if r.Omitted {
			continue
		}
		if connAt[r.Conn] < 0 {
			connAt[r.Conn] = len(tr.Conns)
			tr.Conns = append(tr.Conns, ConnTruth{Idx: r.Conn, FirstRec: ri, FirstSide: r.Side, FirstIsSYN: r.Flags&FlagSYN != 0 && r.Flags&FlagACK == 0 && r.NFrag == 1})
		}
		if r.Frag == 0 {
			// sequence space covered by this packet: [start, end)
			start := uint64(w.Conns[r.Conn].Ends[r.Side].ISS) + r.SeqOff
			end := start + uint64(r.PayLen)
			if r.Flags&(FlagSYN|FlagFIN) != 0 {
				end++
			}
			if start < 1<<32 && seenPost[r.Conn][r.Side] {
				wrapBack[r.Conn][r.Side] = true
			}
			if end >= 1<<32 {
				seenPost[r.Conn][r.Side] = true
			}
		}
		whole := r.NFrag == 1
		if !whole {
			var st *fragState
			for _, f := range fs {
				if f.xmit == r.Xmit {
					st = f
				}
			}
			if st == nil {
				st = &fragState{xmit: r.Xmit, have: make([]bool, r.NFrag), count: make([]int, r.NFrag), reasm: -1, last: -1, conn: r.Conn, side: r.Side}
				fs = append(fs, st)
			}
			if st.n > 0 && r.Frag < st.last { // st.n == 0: a new copy starts
				st.disorder = true
			}
			st.last = r.Frag
			st.count[r.Frag]++
			if !st.have[r.Frag] {
				st.have[r.Frag] = true
				st.n++
				if st.n == r.NFrag {
					whole = true
					if len(r.IP) == len(r.Whole)-20 {
						st.eqlen = true
					}
					for i := range st.have {
						st.have[i] = false
					}
					st.n = 0
					if st.reasm < 0 {
						// rebuild the datagram from the endpoint's data, not from the fragments
						st.reasm = len(tr.Reasm)
						e := w.Conns[r.Conn].Ends[r.Side]
						tr.Reasm = append(tr.Reasm, Reasm{Src: e.host.IP, Dst: e.peer.host.IP, Proto: 6, Xmit: r.Xmit})
					}
					tr.Reasm[st.reasm].Count++
				}
			}
		}
		if n := r.PayLen - r.Cut; whole && n > 0 {
			// the part of the segment that the capture holds (all of it unless
			// the snap length cut the frame)
			c := cov[r.Conn][r.Side]
			for i := r.DataOff; i < r.DataOff+n; i++ {
				c[i] = true
			}
			segs = append(segs, segCap{r.Conn, r.Side, r.DataOff, n})
		}
	}
	// fill in the datagram details of the reassemblies from the first fragment
	for _, st := range fs {
		if st.reasm < 0 {
			continue
		}
		ra := &tr.Reasm[st.reasm]
		ra.Disorder = st.disorder
		ra.EqLen = st.eqlen
		ra.MaxCount = st.count[0]
		for _, c := range st.count {
			if c < ra.MaxCount {
				ra.MaxCount = c
			}
		}
		for ri := range w.Tap {
			if r := &w.Tap[ri]; r.Xmit == st.xmit {
				// the datagram as the sender built it (the world checked that
				// the receiving host reassembled exactly this from the fragments)
				ra.ID = get16(r.Whole[4:])
				ra.Payload = r.Whole[20:]
				break
			}
		}
	}
	for ci := range tr.Conns {
		ct := &tr.Conns[ci]
		cn := w.Conns[ct.Idx]
		for s := 0; s < 2; s++ {
			e := cn.Ends[s]
			d := &ct.Dirs[s]
			d.Port, d.ISS, d.Sent = e.Port, e.ISS, e.Data
			d.Addr, d.V6, d.ExtKind = e.Addr(), cn.V6, e.ExtKind()
			d.PeerAddr = e.peer.Addr()
			if !cn.V6 {
				d.IP = e.host.IP
			}
			d.Wrapped = uint64(e.ISS)+uint64(len(e.Data))+1 >= 1<<32
			d.WrapBack = wrapBack[ct.Idx][s]
			for _, st := range fs {
				if st.conn == ct.Idx && st.side == s && st.disorder {
					d.FragDisorder = true
				}
				if st.conn == ct.Idx && st.side == s && st.eqlen {
					d.FragEqLen = true
				}
			}
			first := len(e.Data)
			for i, ok := range cov[ct.Idx][s] {
				if !ok {
					first = i
					break
				}
			}
			d.Expect = e.Data[:first]
			d.Missing = first < len(e.Data)
			if d.Missing {
				tr.Holes++
			}
			for _, sg := range segs {
				if sg.conn == ct.Idx && sg.side == s {
					d.DataSegs++
					if d.Missing && sg.off > first {
						d.LaterData = true
					}
				}
			}
		}
	}
	return tr
}

// V4Mapped: an IPv6 address of the form ::ffff:a.b.c.d (RFC 4291 2.5.5.2).
func (a Addr) V4Mapped() bool {
	if !a.V6 || a.B[10] != 0xff || a.B[11] != 0xff {
		return false
	}
	for _, b := range a.B[:10] {
		if b != 0 {
			return false
		}
	}
	return true
}

// AddrFeature is the feature for findings about the connection as a whole
// (it is not listed, or listed with other endpoints): ipv6-v4mapped, ipv6 or
// plain.
func (c *ConnTruth) AddrFeature() string {
	d := &c.Dirs[0]
	switch {
	case d.V6 && (d.Addr.V4Mapped() || d.PeerAddr.V4Mapped()):
		return "ipv6-v4mapped"
	case d.V6:
		return "ipv6"
	}
	return "plain"
}
