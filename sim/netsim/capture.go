package netsim

// Capture file writers, written for the harness from the format documents
// (pcap: wiki.wireshark.org/Development/LibpcapFileFormat; pcapng:
// draft-ietf-opsawg-pcapng; link types: tcpdump.org/linktypes.html).

// File types.
const (
	FilePcapLE = iota
	FilePcapBE
	FilePcapLENano
	FilePcapBENano
	FilePcapngLE
	FilePcapngBE
	NumFileTypes
)

var FileTypeNames = [NumFileTypes]string{"pcap-le", "pcap-be", "pcap-le-ns", "pcap-be-ns", "pcapng-le", "pcapng-be"}

// Link types (LINKTYPE_ values).
const (
	LinkNull     = 0
	LinkEthernet = 1
	LinkRaw      = 101
	LinkSLL      = 113
	LinkIPv4     = 228 // raw IPv4: every packet of the interface is IPv4
	LinkIPv6     = 229 // raw IPv6: every packet of the interface is IPv6
	LinkSLL2     = 276
)

// linkChoices[5] stands for the raw link type of the one family the interface
// carries (LinkIPv4 or LinkIPv6); on an interface that carries both families
// it falls back to LinkRaw.
var linkChoices = [...]int{LinkEthernet, LinkRaw, LinkSLL, LinkSLL2, LinkNull, -1}

// BSD loopback address family values (host byte order of the capturing
// machine). AF_INET6 differs between systems (24, 28, 30); fq's
// bsd_loopback_frame knows 2 and 30 (Darwin) only, so only those are written.
const (
	afInet        = 2
	afInet6Darwin = 30
)

func LinkName(l int) string {
	switch l {
	case LinkNull:
		return "null"
	case LinkEthernet:
		return "ether"
	case LinkRaw:
		return "raw"
	case LinkSLL:
		return "sll"
	case LinkSLL2:
		return "sll2"
	case LinkIPv4:
		return "ipv4"
	case LinkIPv6:
		return "ipv6"
	}
	return "?"
}

// CaptureSpec describes how the tap records are written.
type CaptureSpec struct {
	FileType   int
	Links      []int // link type per interface (one for pcap, one or two for pcapng)
	EthPad     bool  // pad Ethernet frames to 60 bytes as a receiving NIC shows them
	BaseSec    uint32
	Snaplen    uint32
	TsResol    int // pcapng: 6 or 9 (decimal digits); 0 = option absent (microseconds)
	SHBOptions bool
	EPBOptions bool
	IfOptions  bool
	LateIDB    bool // second interface description placed just before its first packet
	ISB        bool // interface statistics block at the end
	NRB        bool // a name resolution block after the interface descriptions
	SectionLen bool // the section header states the section length instead of -1 (report-only configuration)
	// SnapChoice > 0 (configuration snaplen): the capture is taken with a
	// snap length that WriteCapture derives from the frames: never below the
	// longest link+IP+TCP header of the run, so that only payload is cut.
	SnapChoice int
}

// snapCandidates are snap lengths as people use them; each is raised to the
// longest header of the run. 0 and 1 stand for "headers only" and one byte
// more.
var snapCandidates = [...]int{0, 96, 1, 128, 68, 200, 256, 7, 400, 600, 1000, 1514, 9000}

func linkHdrLen(link int) int {
	switch link {
	case LinkEthernet:
		return 14
	case LinkSLL:
		return 16
	case LinkSLL2:
		return 20
	case LinkNull:
		return 4
	}
	return 0
}

func (s *CaptureSpec) IsPcapng() bool { return s.FileType >= FilePcapngLE }
func (s *CaptureSpec) BigEndian() bool {
	return s.FileType == FilePcapBE || s.FileType == FilePcapBENano || s.FileType == FilePcapngBE
}

// Family is "pcap" or "pcapng".
func (s *CaptureSpec) Family() string {
	if s.IsPcapng() {
		return "pcapng"
	}
	return "pcap"
}

// Key names the capture flavour: link type(s) and file type.
func (s *CaptureSpec) Key() string {
	k := LinkName(s.Links[0])
	if len(s.Links) > 1 {
		k += "+" + LinkName(s.Links[1])
	}
	return k + "/" + FileTypeNames[s.FileType]
}

// DrawCaptureSpec draws a capture flavour from the tape. The world is needed
// for the link types that carry one address family only: they are drawn for
// an interface only when all its captured packets are of that family.
func DrawCaptureSpec(c Chooser, p Params, w *World) *CaptureSpec {
	s := &CaptureSpec{}
	s.FileType = c.Intn(NumFileTypes)
	first := c.Intn(len(linkChoices))
	second, two, late := 0, false, false
	if s.IsPcapng() {
		if two = chance(c, 1, 3); two {
			second = c.Intn(len(linkChoices))
			late = chance(c, 1, 2)
		}
	}
	nIf := 1
	if two {
		nIf = 2
	}
	resolve := func(choice, ifi int) int {
		if l := linkChoices[choice]; l >= 0 {
			return l
		}
		has4, has6 := false, false
		for i := range w.Tap {
			if r := &w.Tap[i]; !r.Omitted && r.SrcHost%nIf == ifi {
				if r.V6 {
					has6 = true
				} else {
					has4 = true
				}
			}
		}
		switch {
		case has4 && has6:
			return LinkRaw
		case has6:
			return LinkIPv6
		}
		return LinkIPv4
	}
	s.Links = []int{resolve(first, 0)}
	s.EthPad = chance(c, 1, 2)
	s.BaseSec = uint32(pick(c, 1600000000, 0, 1, 0x7fffff00, 0xfffff000, 1234567890))
	s.Snaplen = uint32(pick(c, 262144, 524288, 0x7fffffff))
	if s.IsPcapng() {
		if two {
			s.Links = append(s.Links, resolve(second, 1))
			s.LateIDB = late
		}
		s.TsResol = pick(c, 0, 6, 9)
		s.SHBOptions = chance(c, 1, 2)
		s.EPBOptions = chance(c, 1, 3)
		s.IfOptions = chance(c, 1, 2)
		s.ISB = chance(c, 1, 3)
		s.NRB = chance(c, 1, 4)
		if p.Wide {
			s.SectionLen = chance(c, 1, 6)
		}
	}
	if p.Snaplen {
		s.SnapChoice = 1 + c.Intn(len(snapCandidates))
	}
	return s
}

type enc struct {
	b  []byte
	be bool
}

func (e *enc) u16(v uint16) {
	if e.be {
		e.b = append(e.b, byte(v>>8), byte(v))
	} else {
		e.b = append(e.b, byte(v), byte(v>>8))
	}
}

func (e *enc) u32(v uint32) {
	if e.be {
		e.b = append(e.b, byte(v>>24), byte(v>>16), byte(v>>8), byte(v))
	} else {
		e.b = append(e.b, byte(v), byte(v>>8), byte(v>>16), byte(v>>24))
	}
}

func (e *enc) u64(v uint64) {
	if e.be {
		e.u32(uint32(v >> 32))
		e.u32(uint32(v))
	} else {
		e.u32(uint32(v))
		e.u32(uint32(v >> 32))
	}
}

func (e *enc) pad4() {
	for len(e.b)%4 != 0 {
		e.b = append(e.b, 0)
	}
}

// frame wraps an IPv4 or IPv6 packet into the link layer of the interface.
func frame(link int, be bool, ethPad bool, ip []byte, v6 bool, src, dst *Host, outgoing bool, ifIndex int, padded *int) []byte {
	etHi, etLo, af := byte(0x08), byte(0x00), byte(afInet)
	if v6 {
		etHi, etLo, af = 0x86, 0xdd, afInet6Darwin
	}
	switch link {
	case LinkEthernet:
		f := make([]byte, 0, 14+len(ip))
		f = append(f, dst.MAC[:]...)
		f = append(f, src.MAC[:]...)
		f = append(f, etHi, etLo)
		f = append(f, ip...)
		if ethPad && len(f) < 60 {
			for len(f) < 60 {
				f = append(f, 0)
			}
			*padded++
		}
		return f
	case LinkRaw:
		return ip
	case LinkIPv4, LinkIPv6:
		if v6 != (link == LinkIPv6) {
			panic("netsim: packet of the other family on a single-family link type")
		}
		return ip
	case LinkSLL:
		f := make([]byte, 16, 16+len(ip))
		if outgoing {
			f[1] = 4 // LINUX_SLL_OUTGOING
		}
		f[3] = 1 // ARPHRD_ETHER
		f[5] = 6
		copy(f[6:12], src.MAC[:])
		f[14], f[15] = etHi, etLo
		return append(f, ip...)
	case LinkSLL2:
		f := make([]byte, 20, 20+len(ip))
		f[0], f[1] = etHi, etLo
		put32(f[4:], uint32(ifIndex+1))
		f[9] = 1 // ARPHRD_ETHER
		if outgoing {
			f[10] = 4
		}
		f[11] = 6
		copy(f[12:18], src.MAC[:])
		return append(f, ip...)
	case LinkNull:
		// address family in the byte order of the capturing machine
		f := make([]byte, 4, 4+len(ip))
		if be {
			f[3] = af
		} else {
			f[0] = af
		}
		return append(f, ip...)
	}
	panic("netsim: unknown link type")
}

// WriteCapture writes the tap records that were not omitted.
func WriteCapture(w *World, s *CaptureSpec) []byte {
	e := &enc{be: s.BigEndian()}
	padded := 0
	nIf := len(s.Links)
	ifOf := func(r *TapRec) int { return r.SrcHost % nIf }
	snap := 0 // 0 = frames are captured whole
	if s.SnapChoice > 0 && w.MTU == 0 {
		hdrMax := 0
		for i := range w.Tap {
			if r := &w.Tap[i]; !r.Omitted {
				if h := linkHdrLen(s.Links[ifOf(r)]) + len(r.IP) - r.PayLen; h > hdrMax {
					hdrMax = h
				}
			}
		}
		snap = snapCandidates[s.SnapChoice-1]
		if snap < 10 {
			snap += hdrMax
		}
		if snap < hdrMax {
			snap = hdrMax
		}
		s.Snaplen = uint32(snap)
	}
	// frameOf returns what the capture holds of the frame and the frame's
	// length on the wire
	frameOf := func(r *TapRec) ([]byte, int) {
		cn := w.Conns[r.Conn]
		src, dst := cn.Ends[r.Side].host, cn.Ends[1-r.Side].host
		i := ifOf(r)
		f := frame(s.Links[i], s.BigEndian(), s.EthPad, r.IP, r.V6, src, dst, r.Side == 0, i, &padded)
		orig := len(f)
		r.Cut = 0
		if snap > 0 && orig > snap {
			f = f[:snap]
			w.Faults[FSnapTrunc]++
			payEnd := linkHdrLen(s.Links[i]) + len(r.IP) // padding, if any, follows
			if cut := payEnd - snap; cut > 0 {
				if cut > r.PayLen {
					cut = r.PayLen
				}
				r.Cut = cut
				w.Faults[FSnapCut]++
			}
		}
		return f, orig
	}
	if !s.IsPcapng() {
		nano := s.FileType == FilePcapLENano || s.FileType == FilePcapBENano
		if nano {
			e.u32(0xa1b23c4d)
		} else {
			e.u32(0xa1b2c3d4)
		}
		e.u16(2)
		e.u16(4)
		e.u32(0) // thiszone
		e.u32(0) // sigfigs
		e.u32(s.Snaplen)
		e.u32(uint32(s.Links[0]))
		for i := range w.Tap {
			r := &w.Tap[i]
			if r.Omitted {
				continue
			}
			f, orig := frameOf(r)
			e.u32(s.BaseSec + uint32(r.T/1e9))
			if nano {
				e.u32(uint32(r.T % 1e9))
			} else {
				e.u32(uint32(r.T % 1e9 / 1000))
			}
			e.u32(uint32(len(f)))
			e.u32(uint32(orig))
			e.b = append(e.b, f...)
		}
		w.Faults[FEthPad] += padded
		return e.b
	}
	// pcapng
	block := func(typ uint32, body func()) {
		start := len(e.b)
		e.u32(typ)
		e.u32(0)
		body()
		e.pad4()
		total := uint32(len(e.b) - start + 4)
		t := &enc{be: e.be}
		t.u32(total)
		copy(e.b[start+4:], t.b)
		e.u32(total)
	}
	option := func(code uint16, val []byte) {
		e.u16(code)
		e.u16(uint16(len(val)))
		e.b = append(e.b, val...)
		e.pad4()
	}
	endOpt := func() { e.u16(0); e.u16(0) }
	block(0x0a0d0d0a, func() {
		e.u32(0x1a2b3c4d)
		e.u16(1)
		e.u16(0)
		e.u64(0xffffffffffffffff) // section length unknown
		if s.SHBOptions {
			option(4, []byte("hnet simulated tap"))
			option(3, []byte("simos"))
			endOpt()
		}
	})
	shbLen := len(e.b)
	idb := func(i int) {
		block(1, func() {
			e.u16(uint16(s.Links[i]))
			e.u16(0)
			e.u32(s.Snaplen)
			if s.IfOptions || s.TsResol != 0 {
				if s.IfOptions {
					option(2, []byte{'t', 'a', 'p', byte('0' + i)})
				}
				if s.TsResol != 0 {
					option(9, []byte{byte(s.TsResol)})
				}
				endOpt()
			}
		})
	}
	idb(0)
	secondDone := nIf < 2
	if nIf == 2 && !s.LateIDB {
		idb(1)
		secondDone = true
	}
	if s.NRB {
		block(4, func() {
			h := w.Hosts[0]
			name := []byte("host0.test\x00")
			e.u16(1)
			e.u16(uint16(4 + len(name)))
			e.b = append(e.b, h.IP[:]...)
			e.b = append(e.b, name...)
			e.pad4()
			e.u16(0)
			e.u16(0)
		})
	}
	var last uint64
	for i := range w.Tap {
		r := &w.Tap[i]
		if r.Omitted {
			continue
		}
		ifi := ifOf(r)
		if ifi == 1 && !secondDone {
			idb(1)
			secondDone = true
		}
		f, orig := frameOf(r)
		ts := uint64(s.BaseSec)*1e9 + uint64(r.T)
		if s.TsResol != 9 {
			ts /= 1000
		}
		last = ts
		block(6, func() {
			e.u32(uint32(ifi))
			e.u32(uint32(ts >> 32))
			e.u32(uint32(ts))
			e.u32(uint32(len(f)))
			e.u32(uint32(orig))
			e.b = append(e.b, f...)
			e.pad4()
			if s.EPBOptions {
				fl := uint32(1) // inbound
				if r.Side == 0 {
					fl = 2
				}
				t := &enc{be: e.be}
				t.u32(fl)
				option(2, t.b)
				if i%3 == 0 {
					option(1, []byte("pkt"))
				}
				endOpt()
			}
		})
	}
	if !secondDone {
		idb(1)
	}
	if s.ISB {
		block(5, func() {
			e.u32(0)
			e.u32(uint32(last >> 32))
			e.u32(uint32(last))
			t := &enc{be: e.be}
			t.u64(uint64(len(w.Tap)))
			option(4, t.b)
			endOpt()
		})
	}
	w.Faults[FEthPad] += padded
	if s.SectionLen {
		// "length in octets of the following section, excluding the Section
		// Header Block itself"; the field sits after type, length, byte order
		// magic and the two version numbers
		t := &enc{be: e.be}
		t.u64(uint64(len(e.b) - shbLen))
		copy(e.b[16:], t.b)
	}
	return e.b
}
