package harness

// hstall: an interrupt reaches an evaluation that is blocked in a read of a
// device that does not answer (a silent pipe, a hung network file system). C20's
// liveness side: once the evaluation's context is cancelled, the read comes
// back with the context's error within a bounded number of steps although the
// device still stalls. The device of this harness stalls one drawn Read (or Seek)
// and answers only after the caller is back: a reader that waits for the device
// after cancellation deadlocks the simulation, which is the violation.

import (
	"context"
	"errors"
	"fmt"
	"io"

	"github.com/wader/fq/internal/ctxreadseeker"
	"github.com/wader/fq/internal/simrt"
	"github.com/wader/fq/zzverif/sim/core"
)

const (
	siteStallDev = 60600 + iota
	siteStallInt
	siteStallReader
)

func init() {
	simrt.RegisterSite(siteStallDev, "hstall:device-stalled")
	simrt.RegisterSite(siteStallInt, "hstall:interrupter")
	simrt.RegisterSite(siteStallReader, "hstall:reader")
	core.Register(&hstall{})
}

type hstall struct{}

func (*hstall) Name() string { return "hstall" }

type stallDev struct {
	data     []byte
	pos      int64
	calls    int
	stallAt  int
	stalled  bool
	released *bool
}

//go:norace
func (d *stallDev) wait() {
	i := d.calls
	d.calls++
	if i != d.stallAt {
		return
	}
	d.stalled = true
	for !*d.released {
		simrt.Block(siteStallDev)
	}
}

//go:norace
func (d *stallDev) Read(p []byte) (int, error) {
	d.wait()
	if d.pos >= int64(len(d.data)) {
		return 0, io.EOF
	}
	n := copy(p, d.data[d.pos:])
	d.pos += int64(n)
	return n, nil
}

//go:norace
func (d *stallDev) Seek(off int64, whence int) (int64, error) {
	d.wait()
	switch whence {
	case io.SeekStart:
		d.pos = off
	case io.SeekCurrent:
		d.pos += off
	case io.SeekEnd:
		d.pos = int64(len(d.data)) + off
	}
	return d.pos, nil
}

//go:norace
func stallIsStalled(d *stallDev) bool { return d.stalled }

func (*hstall) Run(rc *core.RunCtx) *core.RunResult {
	res := core.NewResult()
	t := rc.T
	released := false
	dev := &stallDev{data: make([]byte, 64), stallAt: t.Intn(6), released: &released}
	for i := range dev.data {
		dev.data[i] = byte(i)
	}
	ctx, cancel := context.WithCancel(context.Background())
	defer cancel()
	cancelAfter := t.Intn(120)
	nOps := 3 + t.Intn(5)
	seekMix := t.Intn(3) == 0
	pol := []int{simrt.PolUniform, simrt.PolSticky2, simrt.PolSticky8, simrt.PolPCT}[t.Intn(4)]
	sim := simrt.New(t, pol, 200000)
	var errs []string
	cancelSent := false
	wrongData := ""
	sim.Spawn("reader", false, func() {
		rd := ctxreadseeker.New(ctx, dev)
		buf := make([]byte, 8)
		want := int64(0)
		for i := 0; i < nOps; i++ {
			simrt.Yield(siteStallReader)
			var err error
			if seekMix && i%2 == 1 {
				want = int64((i * 8) % 48)
				_, err = rd.Seek(want, io.SeekStart)
			} else {
				var n int
				n, err = rd.Read(buf)
				if err == nil {
					for k := 0; k < n; k++ {
						if buf[k] != byte(want+int64(k)) && wrongData == "" {
							wrongData = fmt.Sprintf("operation %d: byte %d of the read is %d, the device holds %d there", i, k, buf[k], byte(want+int64(k)))
						}
					}
					want += int64(n)
				}
			}
			if err != nil {
				errs = append(errs, err.Error())
				if !errors.Is(err, context.Canceled) && err != io.EOF {
					wrongData = "operation failed with " + err.Error()
				}
				break
			}
		}
		// the caller is back: only now does the device answer
		hioSet(&released)
	})
	sim.Spawn("interrupter", true, func() {
		for i := 0; i < cancelAfter; i++ {
			simrt.Yield(siteStallInt)
		}
		hioSet(&cancelSent)
		cancel()
	})
	end := sim.Run()
	st := sim.Stats()
	res.Steps, res.Switches, res.Fingerprint, res.Pairs = st.Steps, st.Switches, st.Fingerprint, sim.Pairs()
	blocked := sim.BlockedTasks()
	panicVal, panicStack := sim.PanicVal, sim.PanicStack
	sim.Close()
	res.Nontrivial = stallIsStalled(dev)
	res.Sample = map[string]any{"stall_at_call": dev.stallAt, "cancel_after_yields": cancelAfter, "ops": nOps, "policy": st.Policy, "errors": errs}
	if stallIsStalled(dev) {
		res.Faults["device_stall"]++
	}
	if hioGet(&cancelSent) {
		res.Faults["ctx_cancel"]++
	}
	what := fmt.Sprintf("reader of %d operations over a device that stalls at call %d, context cancelled after %d steps of the interrupter", nOps, dev.stallAt, cancelAfter)
	switch end {
	case simrt.EndPanic:
		fn, class := core.PanicKey(panicVal, panicStack)
		res.Violate("C20", "panic", fn+":"+class, what+": "+panicVal+"\n"+panicStack)
	case simrt.EndDeadlock:
		res.Violate("C20", "cancelled-read-does-not-return", "ctxreadseeker", fmt.Sprintf("%s: the context was cancelled (%v) but the call into the stalled device did not come back - blocked: %v", what, hioGet(&cancelSent), blocked))
	case simrt.EndBudget:
		res.Inconclusive = "step budget exhausted"
	default:
		if wrongData != "" {
			res.Violate("C20", "wrong-result-around-cancellation", "ctxreadseeker", what+": "+wrongData)
		}
		if stallIsStalled(dev) && len(errs) > 0 {
			res.Probes["stalled_read_cancelled"]++
		}
	}
	return res
}
