package main

// Stage is one harness configuration explored for a property.
type Stage struct {
	Harness     string
	Config      string
	Race        bool
	Quick       int     // runs in the quick tier
	Thorough    int     // runs in the thorough tier
	QuickSec    float64 // wall-clock cap
	ThoroughSec float64
	MemGB       int // ulimit -v for workers (0 = none)
	Workers     int // cap on workers (0 = tier default)
}

// Plan is everything simctl needs to know about one property's check.
type Plan struct {
	Stages       []Stage
	Rule         string
	Real         []string
	Stub         []string
	Assumptions  []string
	ExpectProbes []string
}

var commonAssumptions = []string{
	"sampling, not proof: a clean batch is evidence over the seeds explored",
	"goroutines are real threads parked on raw pipe reads and released one at a time; the choice of who runs, every fault and every generated operation come from one tape derived from VERIF_SEED",
	"interleavings are at statement granularity in internal/ctxstack, internal/ctxreadseeker, internal/iox and at I/O-call granularity elsewhere",
	"the instrumented build (go/ast rewrite + -overlay) behaves like the working tree apart from the inserted scheduling points, simulated channel operations, clock and knobs",
}

var plans = map[string]Plan{
	"C20": {
		Stages: []Stage{
			{Harness: "hctx", Config: "default", Quick: 40000, Thorough: 4000000, QuickSec: 60, ThoroughSec: 900},
			{Harness: "hctx", Config: "default", Race: true, Quick: 2000, Thorough: 100000, QuickSec: 40, ThoroughSec: 600},
		},
		Rule: "one run = a tape-drawn list of 3..12 push/finish/observe/write/stop operations by an evaluator task against 0..3 interrupts by an interrupter task, scheduled at statement level (policy drawn per run) over the real ctxstack; oracle: history linearizable (porcupine) against a stack-of-contexts model, no panic in any task, no deadlock, no race report in race mode; distinct = distinct schedule fingerprint (FNV of the event log); non-trivial = at least two recorded operations",
		Real: []string{"internal/ctxstack (statement-level yields)", "internal/iox.CtxWriter", "context"},
		Stub: []string{"trigger source (1-buffered interrupt channel as in pkg/cli)", "scheduler", "io.Discard sink"},
		Assumptions: append([]string{
			"the evaluator never pushes or finishes after Stop (fq calls Stop last); an abandoned entry popped by an outer finish is never finished itself (DESIGN §4)",
		}, commonAssumptions...),
		ExpectProbes: []string{"interrupt", "interrupt_dropped", "porcupine_ok"},
	},
}
