package harness

import (
	"context"
	"fmt"
	"io"
	"sort"
	"strings"
	"time"

	"github.com/anishathalye/porcupine"
	"github.com/wader/fq/internal/ctxstack"
	"github.com/wader/fq/internal/iox"
	"github.com/wader/fq/internal/simrt"
	"github.com/wader/fq/zzverif/sim/core"
)

// H-CTX: component harness for C20 (DESIGN §3 C20). Real: internal/ctxstack
// (instrumented at statement level), iox.CtxWriter. Clients: E (evaluator),
// I (interrupter). Oracle: linearizability against a stack-of-contexts model,
// no panic, no deadlock.

const (
	siteCtxE    = 60000
	siteCtxI    = 60001
	siteCtxTrig = 60002
)

func init() {
	simrt.RegisterSite(siteCtxE, "hctx:E")
	simrt.RegisterSite(siteCtxI, "hctx:I")
	simrt.RegisterSite(siteCtxTrig, "hctx:trigger-wait")
	core.Register(&hctx{})
}

type hctx struct{}

func (*hctx) Name() string { return "hctx" }

type ctxOp struct {
	Kind   string // push finish observe write interrupt stop
	ID     int
	Parent int // for push: id of parent entry or -1 for background
}

type ctxOut struct {
	Cancelled string // observe: sorted ids
	OK        bool   // write
}

type ctxHist struct {
	ops  [64]porcupine.Operation
	n    int
	seq  int64
	open [64]bool
}

//go:norace
func (h *ctxHist) invoke(client int, in ctxOp) int {
	h.seq++
	i := h.n
	h.n++
	h.ops[i] = porcupine.Operation{ClientId: client, Input: in, Call: h.seq}
	h.open[i] = true
	return i
}

//go:norace
func (h *ctxHist) ret(i int, out ctxOut) {
	h.seq++
	h.ops[i].Output = out
	h.ops[i].Return = h.seq
	h.open[i] = false
}

type ctxState struct {
	stack     []int
	cancelled map[int]bool
	parent    map[int]int
	stopped   bool
}

func (s ctxState) clone() ctxState {
	n := ctxState{stack: append([]int(nil), s.stack...), cancelled: map[int]bool{}, parent: map[int]int{}, stopped: s.stopped}
	for k, v := range s.cancelled {
		n.cancelled[k] = v
	}
	for k, v := range s.parent {
		n.parent[k] = v
	}
	return n
}

func (s ctxState) key() string {
	var c []int
	for k := range s.cancelled {
		c = append(c, k)
	}
	sort.Ints(c)
	return fmt.Sprint(s.stack, c, s.stopped)
}

func (s *ctxState) cancel(id int) {
	s.cancelled[id] = true
	// descendants by context parenthood
	for changed := true; changed; {
		changed = false
		for c, p := range s.parent {
			if p >= 0 && s.cancelled[p] && !s.cancelled[c] {
				s.cancelled[c] = true
				changed = true
			}
		}
	}
}

func (s ctxState) cancelledStr() string {
	var c []int
	for k := range s.cancelled {
		c = append(c, k)
	}
	sort.Ints(c)
	return fmt.Sprint(c)
}

var ctxModel = porcupine.Model{
	Init: func() interface{} {
		return ctxState{cancelled: map[int]bool{}, parent: map[int]int{}}
	},
	Step: func(state, input, output interface{}) (bool, interface{}) {
		s := state.(ctxState).clone()
		in := input.(ctxOp)
		out := output.(ctxOut)
		switch in.Kind {
		case "push":
			s.stack = append(s.stack, in.ID)
			s.parent[in.ID] = in.Parent
			if in.Parent >= 0 && s.cancelled[in.Parent] {
				s.cancel(in.ID)
			}
			return true, s
		case "finish":
			pos := -1
			for i, id := range s.stack {
				if id == in.ID {
					pos = i
				}
			}
			// the entry's own context is always cancelled by its pop function
			if pos >= 0 {
				for _, id := range s.stack[pos:] {
					s.cancel(id)
				}
				s.stack = s.stack[:pos]
			}
			s.cancel(in.ID)
			return true, s
		case "interrupt":
			if !s.stopped && len(s.stack) > 0 {
				s.cancel(s.stack[len(s.stack)-1])
			}
			return true, s
		case "stop":
			for _, id := range s.stack {
				s.cancel(id)
			}
			s.stopped = true
			return true, s
		case "observe":
			return out.Cancelled == s.cancelledStr(), s
		case "write":
			return out.OK == !s.cancelled[in.ID], s
		case "noop":
			return true, s
		}
		return false, s
	},
	Equal: func(a, b interface{}) bool {
		return a.(ctxState).key() == b.(ctxState).key()
	},
	DescribeOperation: func(input, output interface{}) string {
		return fmt.Sprintf("%+v -> %+v", input, output)
	},
}

type ctxEntry struct {
	id     int
	ctx    context.Context
	finish func()
	live   bool
	done   int
}

func (*hctx) Run(rc *core.RunCtx) *core.RunResult {
	res := core.NewResult()
	t := rc.T
	sim := simrt.New(t, -1, 6000)
	defer sim.Close()

	hist := &ctxHist{}
	intCh := make(chan struct{}, 1)
	it := &intTrack{processing: -1}
	trigEntered := 0

	var stack *ctxstack.Stack
	nOps := 3 + t.Intn(10)
	nInts := t.Intn(5)
	maxDepth := 1 + t.Intn(5)
	type planned struct {
		kind string
		a, b int
	}
	// the op list is drawn up front so that the shape of a run does not depend on the schedule
	var plan []planned
	for i := 0; i < nOps; i++ {
		plan = append(plan, planned{kind: []string{"push", "push", "finish", "finish", "observe", "write", "push", "finish", "stop"}[t.Intn(9)], a: t.Intn(8), b: t.Intn(8)})
	}
	intGaps := make([]int, nInts)
	for i := range intGaps {
		intGaps[i] = t.Intn(40)
		if t.Intn(2) == 0 {
			intGaps[i] = t.Intn(300) // late: the stack has had time to grow and shrink
		}
	}
	var descr []string

	sim.Spawn("E", false, func() {
		stack = ctxstack.New(func(stopCh chan struct{}) {
			// the trigger goroutine is back in the trigger function: the
			// interrupt it was processing is complete
			it.back(hist, &trigEntered)
			i := simrt.Select(siteCtxTrig, false, simrt.RecvOf(stopCh), simrt.RecvOf(intCh))
			if i == 1 {
				it.took()
			}
		})
		var entries []*ctxEntry
		nextID := 0
		stopped := false
		liveList := func() []*ctxEntry {
			var l []*ctxEntry
			for _, e := range entries {
				if e.live {
					l = append(l, e)
				}
			}
			return l
		}
		for _, p := range plan {
			simrt.Yield(siteCtxE)
			live := liveList()
			if stopped && p.kind == "push" {
				// fq stops the interpreter last; what an interrupt does to an
				// evaluation pushed after Stop is not part of the statement.
				// Evaluations that were running when Stop came still unwind and finish.
				continue
			}
			switch p.kind {
			case "push":
				if len(live) >= maxDepth {
					continue
				}
				parent := -1
				pctx := context.Background()
				if len(live) > 0 && p.a%3 != 0 {
					pe := live[p.b%len(live)]
					parent, pctx = pe.id, pe.ctx
				}
				id := nextID
				nextID++
				hi := hist.invoke(0, ctxOp{Kind: "push", ID: id, Parent: parent})
				c, fin := stack.Push(pctx)
				hist.ret(hi, ctxOut{})
				entries = append(entries, &ctxEntry{id: id, ctx: c, finish: fin, live: true})
				descr = append(descr, fmt.Sprintf("push(%d<-%d)", id, parent))
			case "finish":
				// a live entry (possibly an outer one), or one finished before (no-op)
				var cand []*ctxEntry
				for _, e := range entries {
					if e.live || e.done == 1 {
						cand = append(cand, e)
					}
				}
				if len(cand) == 0 {
					continue
				}
				e := cand[p.a%len(cand)]
				if !e.live && p.b%4 != 0 {
					continue
				}
				hi := hist.invoke(0, ctxOp{Kind: "finish", ID: e.id})
				e.finish()
				hist.ret(hi, ctxOut{})
				descr = append(descr, fmt.Sprintf("finish(%d)", e.id))
				// entries above it are popped with it
				if e.live {
					seen := false
					for _, o := range entries {
						if o == e {
							seen = true
						}
						if seen && o.live {
							o.live = false
							if o != e {
								o.done = 2 // popped by an outer finish: its own pop must not be called (DESIGN §4)
							}
						}
					}
				}
				e.done = 1
			case "observe":
				hi := hist.invoke(0, ctxOp{Kind: "observe"})
				var c []int
				for _, e := range entries {
					if e.ctx.Err() != nil {
						c = append(c, e.id)
					}
				}
				hist.ret(hi, ctxOut{Cancelled: fmt.Sprint(c)})
				descr = append(descr, "observe")
			case "write":
				if len(entries) == 0 {
					continue
				}
				e := entries[p.a%len(entries)]
				hi := hist.invoke(0, ctxOp{Kind: "write", ID: e.id})
				// through the interface: works whether Write has a value or a pointer receiver
				var cw io.Writer = &iox.CtxWriter{Writer: io.Discard, Ctx: e.ctx}
				_, err := cw.Write([]byte("x"))
				hist.ret(hi, ctxOut{OK: err == nil})
				descr = append(descr, fmt.Sprintf("write(%d)", e.id))
			case "stop":
				if stopped || p.a%2 != 0 {
					continue
				}
				stopped = true
				hi := hist.invoke(0, ctxOp{Kind: "stop"})
				stack.Stop()
				hist.ret(hi, ctxOut{})
				descr = append(descr, "stop")
			}
		}
		// closing observations: whatever the interrupts did must be visible to somebody
		for k := 0; k < 3; k++ {
			for y := 0; y < 25; y++ {
				simrt.Yield(siteCtxE)
			}
			if hist.n >= 60 {
				break
			}
			hi := hist.invoke(0, ctxOp{Kind: "observe"})
			var c []int
			for _, e := range entries {
				if e.ctx.Err() != nil {
					c = append(c, e.id)
				}
			}
			hist.ret(hi, ctxOut{Cancelled: fmt.Sprint(c)})
		}
		descr = append(descr, "observe*3")
	})
	sim.Spawn("I", false, func() {
		for _, g := range intGaps {
			for k := 0; k < g; k++ {
				simrt.Yield(siteCtxI)
			}
			ctxInterrupt(hist, intCh, it, res)
		}
	})
	end := sim.Run()
	st := sim.Stats()
	res.Fingerprint = st.Fingerprint
	res.Steps, res.SimNanos, res.Switches, res.Pairs = st.Steps, st.SimNanos, st.Switches, sim.Pairs()
	res.Nontrivial = hist.n >= 2
	res.Sample = map[string]any{"policy": st.Policy, "ops": strings.Join(descr, " "), "interrupts": nInts, "steps": st.Steps, "end": st.End}
	res.Extra["trigger_entered"] += trigEntered
	switch end {
	case simrt.EndPanic:
		fn, class := core.PanicKey(sim.PanicVal, sim.PanicStack)
		if strings.HasPrefix(fn, "unknown") {
			res.Violate("HARNESS", "panic", "hctx", sim.PanicVal+"\n"+sim.PanicStack)
		} else {
			res.Violate("C20", "panic", fn+":"+class, fmt.Sprintf("task %s panicked: %s\n%s", sim.PanicTask, sim.PanicVal, sim.PanicStack))
		}
		res.Trace = sim.Trace()
		return res
	case simrt.EndDeadlock:
		res.Violate("C20", "deadlock", strings.Join(sim.BlockedTasks(), ","), "client task blocked forever: "+strings.Join(sim.BlockedTasks(), ", "))
		res.Trace = sim.Trace()
		return res
	case simrt.EndBudget:
		res.Inconclusive = "step budget exhausted"
		return res
	}
	// an interrupt whose processing never completed stays open until the end of time
	ops := make([]porcupine.Operation, 0, hist.n)
	for i := 0; i < hist.n; i++ {
		op := hist.ops[i]
		if hist.open[i] {
			op.Return = hist.seq + 1000
			op.Output = ctxOut{}
		}
		ops = append(ops, op)
	}
	r := porcupine.CheckOperationsTimeout(ctxModel, ops, 30*time.Second)
	switch r {
	case porcupine.Illegal:
		var hs []string
		for _, op := range ops {
			hs = append(hs, fmt.Sprintf("[c%d %d..%d %+v -> %+v]", op.ClientId, op.Call, op.Return, op.Input, op.Output))
		}
		res.Violate("C20", "not-linearizable", "ctxstack", "history is not linearizable w.r.t. the stack-of-contexts model: "+strings.Join(hs, " "))
		res.Trace = sim.Trace()
	case porcupine.Unknown:
		res.Extra["porcupine_unknown"]++
	default:
		res.Extra["porcupine_ok"]++
	}
	return res
}

type intTrack struct {
	queued     [8]int
	nq         int
	processing int
}

//go:norace
func (it *intTrack) sent(hi int) {
	if it.nq < len(it.queued) {
		it.queued[it.nq] = hi
		it.nq++
	}
}

//go:norace
func (it *intTrack) took() {
	if it.nq > 0 {
		it.processing = it.queued[0]
		copy(it.queued[:], it.queued[1:it.nq])
		it.nq--
	}
}

//go:norace
func (it *intTrack) back(h *ctxHist, entered *int) {
	*entered++
	if it.processing >= 0 {
		h.ret(it.processing, ctxOut{})
		it.processing = -1
	}
}

//go:norace
func (h *ctxHist) makeNoop(i int) {
	h.ops[i].Input = ctxOp{Kind: "noop"}
}

// ctxInterrupt does what cli.go's signal bridge does: a non-blocking send
// into the 1-buffered interrupt channel.
func ctxInterrupt(h *ctxHist, ch chan struct{}, it *intTrack, res *core.RunResult) {
	hi := h.invoke(1, ctxOp{Kind: "interrupt"})
	select {
	case ch <- struct{}{}:
		it.sent(hi)
		ctxNote(res, "interrupt")
	default:
		h.makeNoop(hi)
		h.ret(hi, ctxOut{})
		ctxNote(res, "interrupt_dropped")
	}
}

//go:norace
func ctxNote(res *core.RunResult, k string) { res.Faults[k]++ }
