package harness

// hapi_ops: leaf kinds beyond plain big-endian integers (endian and sign
// variants through every generated reader name, bool, float, text), scalar
// mappers, Try readers whose error the program catches, position queries
// (Pos/BitsLeft/Len/End/NotEnd/AlignBits/TryPeekBits) and the counted /
// conditional array helpers - each with its expected range and value computed
// here from the input bytes, by arithmetic that shares nothing with the decode
// package.
//
// What fq does and the reference deliberately does not assert:
//   - little endian with a width over 8 bits that is not a byte multiple: fq
//     reverses the bytes of the right-aligned big-endian value (a 12 bit read of
//     0xABC gives 0xBC0A, a value of 16 bits). Not generated.
//   - the position after a Try reader failed: fq leaves it at the end of the
//     buffer for the integer readers (the bits that were there are consumed) and
//     unchanged for the text readers. The program restores the position itself
//     and the run only counts what it saw (probe try_failure_moved_position).
//   - whether an endian set inside FramedFn/LimitedFn/RangeFn outlives the frame
//     (the frame works on a copy of the decoder): set only in decoders of their own.
//   - text that is not valid UTF-8 or starts with a byte order mark: generated
//     only where the bytes at that place are valid.

import (
	"bytes"
	"fmt"
	"math"
	"reflect"
	"strings"
	"unicode/utf8"

	"github.com/wader/fq/pkg/decode"
	"github.com/wader/fq/pkg/scalar"
)

// one field of the fixed element body of a counted / conditional struct array
type bodySpec struct {
	Kind string // u s bool raw
	N    int64
}

// apiObs collects what a running program saw that differs from what the
// reference computed (queries) and what is only counted (position after a
// failed Try). Reset before every decode; decodes run one at a time.
type apiObsT struct {
	mismatch []string
	tryMoved int
	tryKept  int
}

var apiObs apiObsT

func apiMismatch(f string, a ...any) {
	if len(apiObs.mismatch) < 8 {
		apiObs.mismatch = append(apiObs.mismatch, fmt.Sprintf(f, a...))
	}
}

// ---- reference arithmetic --------------------------------------------------

// uval is the unsigned value of n bits at start: most significant bit first, or
// (little endian, whole bytes) least significant byte first.
func (g *apiGen) uval(buf int, start, n int64, le bool) uint64 {
	if !le || n <= 8 {
		return g.bitsAt(buf, start, n)
	}
	var v uint64
	for i := int64(0); i < n/8; i++ {
		v |= g.bitsAt(buf, start+8*i, 8) << (8 * uint(i))
	}
	return v
}

func sext(v uint64, n int64) int64 { return int64(v<<(64-uint(n))) >> (64 - uint(n)) }

func fltKind(f float64) string {
	if f != f {
		return "flt=NaN"
	}
	return fmt.Sprintf("flt=%016x", math.Float64bits(f))
}

func symKind(sym any, desc string) string {
	s := ""
	if sym != nil {
		s += fmt.Sprintf(" sym=%T:%v", sym, sym)
	}
	if desc != "" {
		s += " desc=" + desc
	}
	return s
}

func (g *apiGen) bytesAt(buf int, start int64, n int64) []byte {
	bs := make([]byte, n)
	for i := range bs {
		bs[i] = byte(g.bitsAt(buf, start+8*int64(i), 8))
	}
	return bs
}

var utf8BOM = []byte{0xef, 0xbb, 0xbf}

func plainUTF8(bs []byte) bool { return utf8.Valid(bs) && !bytes.HasPrefix(bs, utf8BOM) }

// ---- generator -------------------------------------------------------------

// intField: an integer read in one of the forms the generated API offers
// (FieldU/FieldS with a width in the current endian, FieldUE/FieldSE with an
// explicit endian, FieldU<n>/FieldU<n>LE/FieldU<n>BE/FieldS<n>...), now and then
// with mappers, now and then through a Try reader - which may be aimed past the
// end: the program catches the error, no field is added, it goes on.
func (g *apiGen) intField(c *mctx, forceTryFail bool) (*apiNode, bool) {
	avail := c.limit - c.pos
	nd := &apiNode{Op: "int", Name: g.name()}
	if forceTryFail || g.t.Intn(5) == 0 {
		nd.Try = 1 + g.t.Intn(2)
		if g.t.Intn(24) == 0 {
			nd.Try = 3 // the plain TryField<reader>
		}
	}
	var n int64
	if nd.Try != 0 && avail < 64 && (forceTryFail || g.t.Intn(3) == 0) {
		room := 64 - avail
		if room > 16 {
			room = 16
		}
		n = avail + 1 + int64(g.t.Intn(int(room)))
		nd.Fails = true
		if nd.Try == 3 && (g.plainTryFail || g.t.Intn(2) != 0) {
			nd.Try = 1
		}
	} else {
		var fails bool
		n, fails = g.size(avail, g.gran, 64)
		if fails {
			g.probes["op_past_end"]++
			if n > 64 {
				return &apiNode{Op: "raw", Name: nd.Name, N: n}, false
			}
			return &apiNode{Op: "u", Name: nd.Name, N: n}, false
		}
		if n < 1 {
			n = g.gran
		}
	}
	nd.Signed = g.t.Intn(3) == 0
	nd.Form = g.t.Intn(3)
	switch nd.Form {
	case 1:
		nd.E = 1 + g.t.Intn(2)
	case 2:
		if n >= 8 {
			nd.E = g.t.Intn(3)
		}
	}
	le := nd.E == 2 || (nd.E == 0 && c.le)
	if le && n > 8 && n%8 != 0 {
		if !nd.Fails {
			n -= n % 8
		} else {
			nd.Form, nd.E, le = 1, 1, false
		}
	}
	nd.N = n
	if nd.Try != 0 {
		g.probes[[]string{"", "try_scalar_reader", "try_fn_reader", "try_plain_reader"}[nd.Try]]++
	}
	if nd.Fails {
		g.probes["try_fails_caught"]++
		if avail == 0 {
			g.probes["try_fails_at_end"]++
		}
		if nd.Try == 3 {
			g.plainTryFail = true
			g.probes["try_plain_reader_fails"]++
		}
		return nd, true
	}
	u := g.uval(c.buf, c.base+c.pos, n, le)
	v := &mval{name: nd.Name, start: c.base + c.pos, length: n, buf: c.buf}
	switch {
	case nd.Signed:
		v.val = fmt.Sprintf("s=%d", sext(u, n))
		g.probes["int_signed"]++
	default:
		if nd.Try == 0 || nd.Try == 2 || nd.Try == 1 {
			g.mappers(nd, &u, v)
		}
		if v.val == "" {
			v.val = fmt.Sprintf("u=%d", u)
		}
	}
	switch {
	case le && n > 8:
		g.probes["int_little_endian"]++
		if c.pos%8 != 0 {
			g.probes["int_little_endian_unaligned"]++
		}
	case nd.E == 1:
		g.probes["int_explicit_big_endian"]++
	}
	if nd.Form == 2 {
		g.probes["int_fixed_name_reader"]++
	}
	if n%8 != 0 && n > 8 {
		g.probes["int_odd_width"]++
	}
	g.add(c, v)
	c.pos += n
	return nd, true
}

// mappers draws scalar mappers for an unsigned read of value *u: the range stays,
// the actual value is as read (plus the added constant), the symbol as mapped.
func (g *apiGen) mappers(nd *apiNode, u *uint64, v *mval) {
	if g.t.Intn(4) != 0 {
		return
	}
	k := g.t.Intn(6)
	if k == 0 || k == 1 {
		nd.Add = int64(g.t.Intn(7) - 3)
		if nd.Add == 0 {
			nd.Add = 5
		}
		*u = uint64(int64(*u) + nd.Add)
		g.probes["mapper_actual_add"]++
	}
	sym, desc := any(nil), ""
	if k >= 1 && k <= 4 {
		nd.SymOn = true
		nd.SymUint = k == 4
		nd.SymKey = *u - uint64(g.t.Intn(3)) // the value, the value before it (second entry), or neither
		var hit int
		switch *u {
		case nd.SymKey:
			hit = 1
		case nd.SymKey + 1:
			hit = 2
		}
		switch {
		case hit == 0:
			g.probes["mapper_sym_miss"]++
		case nd.SymUint:
			sym = uint64(6 + hit)
			g.probes["mapper_sym_uint"]++
		default:
			sym = fmt.Sprintf("k%d", hit-1)
			g.probes["mapper_sym_str"]++
		}
	}
	if k == 5 {
		nd.Validate = 1 + g.t.Intn(2)
		desc = []string{"", "valid", "invalid"}[nd.Validate]
		nd.SymKey = *u
		if nd.Validate == 2 {
			nd.SymKey = *u + 1
		}
		g.probes["mapper_validate"]++
	}
	v.val = fmt.Sprintf("u=%d", *u) + symKind(sym, desc)
}

func (g *apiGen) boolField(c *mctx) (*apiNode, bool) {
	nd := &apiNode{Op: "bool", Name: g.name()}
	g.add(c, &mval{name: nd.Name, start: c.base + c.pos, length: 1, buf: c.buf, val: fmt.Sprintf("bool=%v", g.bitsAt(c.buf, c.base+c.pos, 1) == 1)})
	c.pos++
	g.probes["bool"]++
	return nd, true
}

// fltField: FieldF(32|64), FieldFE, FieldF32/F64 with and without LE/BE. nil if
// there is no room.
func (g *apiGen) fltField(c *mctx) *apiNode {
	avail := c.limit - c.pos
	n := int64(32)
	if avail >= 64 && g.t.Intn(2) == 0 {
		n = 64
	}
	if avail < n {
		return nil
	}
	nd := &apiNode{Op: "flt", Name: g.name(), N: n, Form: g.t.Intn(3)}
	switch nd.Form {
	case 1:
		nd.E = 1 + g.t.Intn(2)
	case 2:
		nd.E = g.t.Intn(3)
	}
	le := nd.E == 2 || (nd.E == 0 && c.le)
	u := g.uval(c.buf, c.base+c.pos, n, le)
	var f float64
	if n == 32 {
		f = float64(math.Float32frombits(uint32(u)))
	} else {
		f = math.Float64frombits(u)
	}
	if f != f {
		g.probes["float_nan"]++
	}
	g.add(c, &mval{name: nd.Name, start: c.base + c.pos, length: n, buf: c.buf, val: fltKind(f)})
	c.pos += n
	g.probes[fmt.Sprintf("float%d", n)]++
	if le {
		g.probes["float_little_endian"]++
	}
	return nd
}

// strField: FieldUTF8 / FieldUTF8NullFixedLen over 0..6 bytes, FieldUTF8Null up to
// the next zero byte (at byte steps from the current - possibly unaligned -
// position). nil if the bytes at this place are not plain valid UTF-8, if there is
// no room, or no terminator.
func (g *apiGen) strField(c *mctx) (*apiNode, bool) {
	avail := c.limit - c.pos
	at := c.base + c.pos
	switch g.t.Intn(3) {
	case 0, 1:
		nb := int64(g.t.Intn(7))
		if nb*8 > avail {
			nb = avail / 8
		}
		bs := g.bytesAt(c.buf, at, nb)
		nd := &apiNode{Op: "utf8", Name: g.name(), N: nb}
		if g.t.Intn(2) == 0 {
			nd.Op = "utf8nullfixed"
			if i := bytes.IndexByte(bs, 0); i >= 0 {
				bs = bs[:i]
				g.probes["text_fixed_len_cut_at_null"]++
			}
		}
		if !plainUTF8(bs) {
			g.names--
			return nil, true
		}
		g.add(c, &mval{name: nd.Name, start: at, length: nb * 8, buf: c.buf, val: fmt.Sprintf("str=%x", bs)})
		c.pos += nb * 8
		g.probes["text_"+nd.Op]++
		if nb == 0 {
			g.probes["text_empty"]++
		}
		if at%8 != 0 {
			g.probes["text_unaligned"]++
		}
		return nd, true
	default:
		nd := &apiNode{Op: "utf8null", Name: g.name()}
		for i := int64(0); (i+1)*8 <= avail && i < 16; i++ {
			if g.bitsAt(c.buf, at+8*i, 8) != 0 {
				continue
			}
			bs := g.bytesAt(c.buf, at, i)
			if !plainUTF8(bs) {
				break
			}
			g.add(c, &mval{name: nd.Name, start: at, length: (i + 1) * 8, buf: c.buf, val: fmt.Sprintf("str=%x", bs)})
			c.pos += (i + 1) * 8
			g.probes["text_utf8null"]++
			return nd, true
		}
		// is there a terminator at all?
		for i := int64(0); (i+1)*8 <= avail; i++ {
			if g.bitsAt(c.buf, at+8*i, 8) == 0 {
				g.names--
				return nil, true
			}
		}
		if g.mayFail && g.t.Intn(2) == 0 {
			// no terminator before the end: the read fails
			g.mayFail = false
			g.probes["text_utf8null_without_terminator"]++
			return nd, false
		}
		g.names--
		return nil, true
	}
}

// query: the program asks the decoder where it is and compares with the reference.
func (g *apiGen) query(c *mctx) *apiNode {
	nd := &apiNode{Op: "query", P: c.pos, N: c.limit - c.pos, Len: c.limit}
	g.probes["query_pos_left_len_end"]++
	if c.pos >= c.limit {
		g.probes["query_at_end"]++
	}
	return nd
}

// peek: TryPeekBits of n bits; past the end it fails and the position stays.
func (g *apiGen) peek(c *mctx) *apiNode {
	avail := c.limit - c.pos
	nd := &apiNode{Op: "peek", P: c.pos}
	hi := avail
	if hi > 64 {
		hi = 64
	}
	if avail < 64 && g.t.Intn(4) == 0 {
		nd.N = avail + 1 + int64(g.t.Intn(int(min64(8, 64-avail))))
		nd.Fails = true
		g.probes["peek_past_end"]++
		return nd
	}
	nd.N = int64(g.t.Intn(int(hi) + 1))
	nd.U = g.bitsAt(c.buf, c.base+c.pos, nd.N)
	g.probes["peek"]++
	return nd
}

func min64(a, b int64) int64 {
	if a < b {
		return a
	}
	return b
}

// body draws the fixed element body of a struct array.
func (g *apiGen) body() []bodySpec {
	var b []bodySpec
	for i, k := 0, 1+g.t.Intn(3); i < k; i++ {
		s := bodySpec{Kind: []string{"u", "u", "s", "bool", "raw"}[g.t.Intn(5)], N: g.gran * int64(1+g.t.Intn(3))}
		if s.Kind == "bool" {
			if g.gran == 8 {
				s.Kind = "u"
			} else {
				s.N = 1
			}
		}
		b = append(b, s)
	}
	return b
}

func bodyBits(b []bodySpec) int64 {
	var n int64
	for _, s := range b {
		n += s.N
	}
	return n
}

// element runs one element body; false: a read of the element does not fit
// (the element struct keeps the fields read before it).
func (g *apiGen) element(c *mctx, arr *mval, b []bodySpec) bool {
	e := &mval{name: "e", compound: true, start: c.base + c.pos, buf: c.buf}
	arr.kids = append(arr.kids, e)
	for i, s := range b {
		if s.N > c.limit-c.pos {
			return false
		}
		v := &mval{name: string(rune('a' + i)), start: c.base + c.pos, length: s.N, buf: c.buf}
		le := c.le && s.N%8 == 0
		switch s.Kind {
		case "u":
			v.val = fmt.Sprintf("u=%d", g.uval(c.buf, v.start, s.N, le))
		case "s":
			v.val = fmt.Sprintf("s=%d", sext(g.uval(c.buf, v.start, s.N, le), s.N))
		case "bool":
			v.val = fmt.Sprintf("bool=%v", g.bitsAt(c.buf, v.start, 1) == 1)
		}
		e.kids = append(e.kids, v)
		c.pos += s.N
	}
	return true
}

// structArray: FieldStructNArray (a drawn count, now and then one more than
// fits), FieldStructArrayLoop and FieldArrayLoop (while enough bits are left).
func (g *apiGen) structArray(c *mctx) (*apiNode, bool) {
	b := g.body()
	w := bodyBits(b)
	if c.le {
		// in a little endian decoder the element reads are whole bytes or at most 8 bits
		for i := range b {
			if (b[i].Kind == "u" || b[i].Kind == "s") && b[i].N > 8 && b[i].N%8 != 0 {
				b[i].Kind = "raw"
			}
		}
	}
	nd := &apiNode{Op: []string{"narray", "structloop", "arrayloop"}[g.t.Intn(3)], Name: g.name(), Body: b, N: w}
	arr := &mval{name: nd.Name, compound: true, array: true, start: c.base + c.pos, buf: c.buf}
	g.add(c, arr)
	fit := (c.limit - c.pos) / w
	switch nd.Op {
	case "narray":
		cnt := int64(g.t.Intn(5))
		if cnt > fit {
			cnt = fit
		}
		if g.mayFail && g.t.Intn(6) == 0 {
			g.mayFail = false
			cnt = fit + 1
			g.probes["counted_array_past_end"]++
		}
		nd.Cnt = cnt
		for i := int64(0); i < cnt; i++ {
			if !g.element(c, arr, b) {
				return nd, false
			}
		}
		g.probes["counted_struct_array"]++
		if cnt == 0 {
			g.probes["counted_array_of_zero"]++
		}
	case "structloop":
		for c.limit-c.pos >= w {
			g.element(c, arr, b)
		}
		g.probes["struct_array_loop"]++
	case "arrayloop":
		// the elements' fields are the array's own elements
		for c.limit-c.pos >= w {
			tmp := &mval{}
			g.element(c, tmp, b)
			arr.kids = append(arr.kids, tmp.kids[0].kids...)
		}
		g.probes["array_loop"]++
	}
	return nd, true
}

// ---- program side ------------------------------------------------------------

func apiCall(d *decode.D, m string, args ...any) []reflect.Value {
	mv := reflect.ValueOf(d).MethodByName(m)
	if !mv.IsValid() {
		panic("hapi: the decode API has no method " + m)
	}
	in := make([]reflect.Value, len(args))
	for i, a := range args {
		in[i] = reflect.ValueOf(a)
	}
	return mv.Call(in)
}

func apiEndian(e int) decode.Endian {
	if e == 2 {
		return decode.Endian(decode.LittleEndian)
	}
	return decode.Endian(decode.BigEndian)
}

// readerSuffix: the part of a generated reader's name after U/S/F and its
// arguments after the field name.
func (n *apiNode) readerSuffix() (string, []any) {
	switch n.Form {
	case 0:
		return "", []any{int(n.N)}
	case 1:
		return "E", []any{int(n.N), apiEndian(n.E)}
	}
	return fmt.Sprintf("%d%s", n.N, []string{"", "BE", "LE"}[n.E]), nil
}

func (n *apiNode) readerName() string {
	base := "U"
	if n.Signed {
		base = "S"
	}
	if n.Op == "flt" {
		base = "F"
	}
	suf, _ := n.readerSuffix()
	return []string{"Field", "TryFieldScalar", "TryField*Fn+Try", "TryField"}[n.Try] + base + suf
}

func apiMappers(d *decode.D, n *apiNode) []any {
	var ms []any
	if n.Add != 0 {
		ms = append(ms, scalar.UintMapper(scalar.UintActualAdd(int(n.Add))))
	}
	if n.SymOn {
		if n.SymUint {
			ms = append(ms, scalar.UintMapper(scalar.UintMapSymUint{n.SymKey: 7, n.SymKey + 1: 8}))
		} else {
			ms = append(ms, scalar.UintMapper(scalar.UintMapSymStr{n.SymKey: "k0", n.SymKey + 1: "k1"}))
		}
	}
	if n.Validate != 0 {
		ms = append(ms, d.UintValidate(n.SymKey))
	}
	return ms
}

func apiErr(v reflect.Value) error {
	if v.IsNil() {
		return nil
	}
	return v.Interface().(error)
}

func apiExecInt(d *decode.D, n *apiNode) {
	base := "U"
	if n.Signed {
		base = "S"
	}
	if n.Op == "flt" {
		base = "F"
	}
	suf, rargs := n.readerSuffix()
	args := append([]any{n.Name}, rargs...)
	if !n.Signed && n.Op == "int" {
		args = append(args, apiMappers(d, n)...)
	}
	if n.Try == 0 {
		apiCall(d, "Field"+base+suf, args...)
		return
	}
	p0 := d.Pos()
	var err error
	switch n.Try {
	case 1:
		err = apiErr(apiCall(d, "TryFieldScalar"+base+suf, args...)[1])
	case 3:
		err = apiErr(apiCall(d, "TryField"+base+suf, args...)[1])
	case 2:
		if n.Signed {
			_, err = d.TryFieldSintFn(n.Name, func(d *decode.D) (int64, error) {
				r := apiCall(d, "TryS"+suf, rargs...)
				return r[0].Int(), apiErr(r[1])
			})
		} else {
			var ms []scalar.UintMapper
			for _, m := range apiMappers(d, n) {
				ms = append(ms, m.(scalar.UintMapper))
			}
			_, err = d.TryFieldUintFn(n.Name, func(d *decode.D) (uint64, error) {
				r := apiCall(d, "TryU"+suf, rargs...)
				return r[0].Uint(), apiErr(r[1])
			}, ms...)
		}
	}
	switch {
	case err != nil && !n.Fails:
		// not the end of the buffer: what a decoder does with an error it did not expect
		d.IOPanic(err, n.Name, "hapi try reader")
	case err == nil && n.Fails:
		apiMismatch("%s of %d bits at %d succeeded, %d bits are left", n.readerName(), n.N, p0, d.BitsLeft()+n.N)
	case err != nil:
		if d.Pos() != p0 {
			apiObs.tryMoved++
			d.SeekAbs(p0)
		} else {
			apiObs.tryKept++
		}
	}
}

func apiExecBody(d *decode.D, b []bodySpec) {
	for i, s := range b {
		name := string(rune('a' + i))
		switch s.Kind {
		case "u":
			d.FieldU(name, int(s.N))
		case "s":
			d.FieldS(name, int(s.N))
		case "bool":
			d.FieldBool(name)
		case "raw":
			d.FieldRawLen(name, s.N)
		}
	}
}

// apiExecOp runs the operations of this file; false: not one of them.
func apiExecOp(d *decode.D, n *apiNode) bool {
	switch n.Op {
	case "int", "flt":
		apiExecInt(d, n)
	case "bool":
		d.FieldBool(n.Name)
	case "utf8":
		d.FieldUTF8(n.Name, int(n.N))
	case "utf8nullfixed":
		d.FieldUTF8NullFixedLen(n.Name, int(n.N))
	case "utf8null":
		d.FieldUTF8Null(n.Name)
	case "valuestr":
		d.FieldValueStr(n.Name, n.S)
	case "endian":
		d.Endian = apiEndian(n.E)
	case "query":
		if p := d.Pos(); p != n.P {
			apiMismatch("Pos() is %d, the program is at %d", p, n.P)
		}
		if l := d.BitsLeft(); l != n.N {
			apiMismatch("BitsLeft() is %d at %d, the program has %d bits left", l, n.P, n.N)
		}
		if l := d.Len(); l != n.Len {
			apiMismatch("Len() is %d at %d, the program's buffer ends at %d", l, n.P, n.Len)
		}
		if e := d.End(); e != (n.N <= 0) {
			apiMismatch("End() is %v at %d with %d bits left", e, n.P, n.N)
		}
		if e := d.NotEnd(); e != (n.N > 0) {
			apiMismatch("NotEnd() is %v at %d with %d bits left", e, n.P, n.N)
		}
		if a := int64(d.ByteAlignBits()); a != (8-n.P%8)%8 {
			apiMismatch("ByteAlignBits() is %d at %d", a, n.P)
		}
	case "peek":
		v, err := d.TryPeekBits(int(n.N))
		switch {
		case err != nil && !n.Fails:
			d.IOPanic(err, "", "hapi peek")
		case err == nil && n.Fails:
			apiMismatch("TryPeekBits(%d) at %d succeeded past the end", n.N, n.P)
		case err == nil && v != n.U:
			apiMismatch("TryPeekBits(%d) at %d is %d, the bits there are %d", n.N, n.P, v, n.U)
		}
		if p := d.Pos(); p != n.P {
			apiMismatch("after TryPeekBits(%d) at %d the position is %d", n.N, n.P, p)
		}
	case "narray":
		d.FieldStructNArray(n.Name, "e", n.Cnt, func(d *decode.D) { apiExecBody(d, n.Body) })
	case "structloop":
		d.FieldStructArrayLoop(n.Name, "e", func() bool { return d.BitsLeft() >= n.N }, func(d *decode.D) { apiExecBody(d, n.Body) })
	case "arrayloop":
		d.FieldArrayLoop(n.Name, func() bool { return d.BitsLeft() >= n.N }, func(d *decode.D) { apiExecBody(d, n.Body) })
	default:
		return false
	}
	return true
}

// apiOpString: the operations of this file in a program listing.
func (n *apiNode) opsString() (string, bool) {
	switch n.Op {
	case "int", "flt":
		s := fmt.Sprintf("%s %s", n.readerName(), n.Name)
		if n.Form != 2 {
			s += fmt.Sprintf(" %d", n.N)
		}
		if n.Form == 1 {
			s += []string{"", " BE", " LE"}[n.E]
		}
		if n.Add != 0 {
			s += fmt.Sprintf(" ActualAdd(%d)", n.Add)
		}
		if n.SymOn {
			s += fmt.Sprintf(" MapSym{%d,%d}", n.SymKey, n.SymKey+1)
		}
		if n.Validate != 0 {
			s += fmt.Sprintf(" Validate(%d)", n.SymKey)
		}
		if n.Fails {
			s += " (fails, caught)"
		}
		return s, true
	case "bool", "utf8null":
		return n.Op + " " + n.Name, true
	case "utf8", "utf8nullfixed":
		return fmt.Sprintf("%s %s %d", n.Op, n.Name, n.N), true
	case "valuestr":
		return fmt.Sprintf("valuestr %s %q", n.Name, n.S), true
	case "endian":
		return "endian" + []string{"", " BE", " LE"}[n.E], true
	case "query":
		return fmt.Sprintf("query pos=%d left=%d", n.P, n.N), true
	case "peek":
		if n.Fails {
			return fmt.Sprintf("peek %d (fails)", n.N), true
		}
		return fmt.Sprintf("peek %d", n.N), true
	case "narray", "structloop", "arrayloop":
		var parts []string
		for _, s := range n.Body {
			parts = append(parts, fmt.Sprintf("%s %d", s.Kind, s.N))
		}
		s := n.Op + " " + n.Name
		if n.Op == "narray" {
			s += fmt.Sprintf(" x%d", n.Cnt)
		}
		return s + " {" + strings.Join(parts, "; ") + "}", true
	}
	return "", false
}
