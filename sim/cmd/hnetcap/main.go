// hnetcap re-runs one hnet case (from a replay file, or from seed/config/run
// index exactly as simw derives it) and writes the capture file the harness
// fed to fq, so that the case can be examined with fq itself or other tools.
// It prints the packet trace and the verdicts.
//
//	hnetcap -replay evidence/x.json -o /tmp/x.pcap
//	hnetcap -config clean -seed 1 -idx 228 -o /tmp/x.pcap
package main

import (
	"encoding/json"
	"flag"
	"fmt"
	"hash/fnv"
	"os"

	"github.com/wader/fq/internal/simrt"
	"github.com/wader/fq/zzverif/sim/core"
	"github.com/wader/fq/zzverif/sim/harness"
)

func hstr(s string) uint64 {
	h := fnv.New64a()
	h.Write([]byte(s))
	return h.Sum64()
}

func main() {
	replay := flag.String("replay", "", "replay file (core.Replay JSON)")
	config := flag.String("config", "clean", "harness configuration")
	seed := flag.Uint64("seed", 1, "VERIF_SEED")
	idx := flag.Int("idx", 0, "run index")
	out := flag.String("o", "", "write the capture here")
	flag.Parse()
	h := core.Get("hnet")
	rc := &core.RunCtx{Tier: "quick", Config: *config, Idx: *idx, Replay: true}
	if *replay != "" {
		b, err := os.ReadFile(*replay)
		if err != nil {
			fmt.Fprintln(os.Stderr, err)
			os.Exit(2)
		}
		var rp core.Replay
		if err := json.Unmarshal(b, &rp); err != nil {
			fmt.Fprintln(os.Stderr, err)
			os.Exit(2)
		}
		rc.Config, rc.Idx = rp.Config, rp.Idx
		rc.T = simrt.NewReplayTape(rp.Tape)
	} else {
		base := simrt.Mix(*seed, hstr("hnet"), hstr(*config))
		rc.T = simrt.NewTape(simrt.Mix(base, uint64(*idx)))
	}
	harness.HnetCaptureSink = func(flavour string, capture []byte) {
		fmt.Printf("capture %s, %d bytes\n", flavour, len(capture))
		if *out != "" {
			if err := os.WriteFile(*out, capture, 0o644); err != nil {
				fmt.Fprintln(os.Stderr, err)
				os.Exit(2)
			}
		}
	}
	res := h.Run(rc)
	for _, l := range res.Trace {
		fmt.Println(l)
	}
	s, _ := json.Marshal(res.Sample)
	fmt.Printf("case %s\n", s)
	for _, v := range res.Violations {
		fmt.Printf("VIOLATION %s: %s\n", v.Class(), v.Detail)
	}
	if len(res.Violations) == 0 {
		fmt.Println("no violation")
	}
}
