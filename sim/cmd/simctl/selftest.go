package main

import (
	"bytes"
	"fmt"
	"os"
	"os/exec"
	"path/filepath"
	"strings"
	"sync"
)

// selftest proves what everything else relies on:
//  1. determinism: the same (seed, run index) gives the same event-log
//     fingerprint, step count and verdicts in separate processes at
//     GOMAXPROCS 1, 4 and 16 (and in the race build);
//  2. the race mode sees a planted race in a serialised execution and does not
//     report a planted, properly synchronised hand-over.
type detCase struct {
	harness, config string
	n               int
	strict          bool // component harnesses must be bit-for-bit deterministic
}

var detCases = []detCase{
	{"hctx", "default", 400, true},
	{"hio", "benign", 300, true},
	{"hio", "errors", 300, true},
	{"hnet", "clean", 200, true},
	{"hnet", "omission", 100, true},
	{"hstore", "intact", 30, true},
	{"hstore", "bitrot", 30, true},
	{"hapi", "default", 400, true},
	{"hstall", "default", 400, true},
	{"htwins", "default", 150, false},
	{"hdec", "default", 150, false},
	{"hcli", "default", 24, false},
	{"hbits", "benign", 24, false},
	{"halg", "benign", 24, false},
	{"hrepl", "default", 24, false},
	{"hconc", "default", 8, false},
	{"hselfrace", "planted", 20, true},
}

func runDet(bin string, c detCase, procs string, out string, race bool) error {
	args := []string{"-harness", c.harness, "-config", c.config, "-seed", "424242", "-from", "0", "-to", fmt.Sprint(c.n), "-det", out, "-shrinksec", "0", "-memgb", "4"}
	if race {
		args = append(args, "-race")
	}
	cmd := exec.Command(bin, args...)
	cmd.Env = append(os.Environ(), "GOMAXPROCS="+procs, "GORACE=halt_on_error=0", "SIMRT_SPIN=0")
	var stderr bytes.Buffer
	cmd.Stderr = &stderr
	if err := cmd.Run(); err != nil {
		if ee, ok := err.(*exec.ExitError); ok && (ee.ExitCode() == 97 || ee.ExitCode() == 98 || ee.ExitCode() == 2) {
			return nil // resource death of one run: the lines written so far are compared
		}
		return fmt.Errorf("%v: %s", err, firstN(stderr.String(), 400))
	}
	return nil
}

func diffLines(a, b string) (same, differ int, first string) {
	la, lb := strings.Split(strings.TrimSpace(a), "\n"), strings.Split(strings.TrimSpace(b), "\n")
	n := len(la)
	if len(lb) < n {
		n = len(lb)
	}
	for i := 0; i < n; i++ {
		if la[i] == lb[i] {
			same++
		} else {
			differ++
			if first == "" {
				first = la[i] + "  <>  " + lb[i]
			}
		}
	}
	return
}

func selftest() int {
	b := doBuild(true)
	defer b.cleanup()
	fail := false
	var mu sync.Mutex
	var wg sync.WaitGroup
	sem := make(chan struct{}, 6)
	results := make([]string, len(detCases))
	for ci, c := range detCases {
		wg.Add(1)
		go func(ci int, c detCase) {
			defer wg.Done()
			sem <- struct{}{}
			defer func() { <-sem }()
			var outs []string
			for _, v := range []struct {
				procs string
				race  bool
			}{{"1", false}, {"4", false}, {"16", false}, {"4", true}, {"16", true}} {
				if c.harness == "hselfrace" && v.race {
					continue
				}
				if v.race && !c.strict && c.harness != "hrepl" {
					continue // the whole-fq harnesses are slow under -race; hrepl stands for them
				}
				bin := b.plain
				if v.race {
					bin = b.race
				}
				out := filepath.Join(b.dir, fmt.Sprintf("det-%s-%s-%s-%v", c.harness, c.config, v.procs, v.race))
				if err := runDet(bin, c, v.procs, out, v.race); err != nil {
					mu.Lock()
					results[ci] = fmt.Sprintf("%-8s %-9s ERROR %v", c.harness, c.config, err)
					fail = true
					mu.Unlock()
					return
				}
				bs, _ := os.ReadFile(out)
				outs = append(outs, string(bs))
			}
			worst := 0
			firstDiff := ""
			total := 0
			// plain processes are compared with each other; the race build draws a
			// different tape in some harnesses (no reference runs) and is compared with
			// a second race process
			nPlain := 3
			if len(outs) < 3 {
				nPlain = len(outs)
			}
			for i := 1; i < len(outs); i++ {
				base := outs[0]
				if i >= nPlain {
					if i == nPlain {
						continue
					}
					base = outs[nPlain]
				}
				same, differ, first := diffLines(base, outs[i])
				total = same + differ
				if differ > worst {
					worst, firstDiff = differ, first
				}
			}
			status := "ok"
			if worst > 0 {
				if c.strict {
					status = "NONDETERMINISTIC"
					mu.Lock()
					fail = true
					mu.Unlock()
				} else {
					status = "residual (Go map order inside fq)"
				}
			}
			mu.Lock()
			results[ci] = fmt.Sprintf("%-9s %-9s runs=%-4d processes=%d differing=%d %s %s", c.harness, c.config, total, len(outs), worst, status, firstN(firstDiff, 160))
			mu.Unlock()
		}(ci, c)
	}
	wg.Wait()
	fmt.Println("determinism (same seed and run index in separate processes at GOMAXPROCS 1/4/16 and in the race build):")
	for _, r := range results {
		fmt.Println("  " + r)
	}
	// planted race / planted synchronised hand-over
	for _, cfg := range []struct {
		name string
		want bool
	}{{"planted", true}, {"synchronised", false}} {
		cmd := exec.Command(b.race, "-harness", "hselfrace", "-config", cfg.name, "-from", "0", "-to", "30", "-race", "-shrinksec", "0")
		cmd.Env = append(os.Environ(), "GOMAXPROCS=4", "GORACE=halt_on_error=1 exitcode=66")
		out, _ := cmd.CombinedOutput()
		got := bytes.Contains(out, []byte("WARNING: DATA RACE"))
		ok := got == cfg.want
		fmt.Printf("race mode, %s hand-over: race reported=%v expected=%v %s\n", cfg.name, got, cfg.want, map[bool]string{true: "ok", false: "FAILED"}[ok])
		if !ok {
			fail = true
			fmt.Println(firstN(string(out), 1500))
		}
	}
	if fail {
		fmt.Println("selftest FAILED")
		return 2
	}
	fmt.Println("selftest ok")
	return 0
}
