package harness

// htwins: the same sample decoded by two (or three) tasks of one simulation at
// the same time, through decode.Decode directly - no interpreter start-up, a
// run costs milliseconds, so that every small sample of the corpus gets its
// turn in the quick tier. Race build: whatever package-level state a decoder or
// a library it uses writes while decoding (tables built on first use, shared
// text decoders, caches) is written by both tasks without a happens-before
// edge between them. Plain build: the trees of the interleaved decodes are equal
// to each other and to a lone decode (C18: concurrent decodes give the result
// of a lone run).

import (
	"context"
	"fmt"
	"hash/fnv"
	"math/big"
	"os"

	"github.com/wader/fq/internal/simrt"
	"github.com/wader/fq/pkg/bitio"
	"github.com/wader/fq/pkg/decode"
	"github.com/wader/fq/pkg/interp"
	"github.com/wader/fq/pkg/scalar"
	"github.com/wader/fq/zzverif/sim/core"
	"github.com/wader/fq/zzverif/sim/corpus"
)

type htwins struct{}

func init() { core.Register(&htwins{}) }

func (*htwins) Name() string { return "htwins" }

// treeDigest folds names, kinds, ranges and actual values of a tree.
func treeDigest(v *decode.Value) (uint64, int) {
	h := fnv.New64a()
	n := 0
	if os.Getenv("HTWINS_DEBUG") != "" {
		defer func() { fmt.Fprintf(os.Stderr, "digest %x of %d values\n", h.Sum64(), n) }()
	}
	_ = hdecWalk(v, false, func(w *decode.Value, _ *decode.Value, depth int, _ int) error {
		n++
		fmt.Fprintf(h, "%d %s %d %d|", depth, w.Name, w.Range.Start, w.Range.Len)
		if s, ok := w.V.(scalar.Scalarable); ok {
			if _, isBuf := w.V.(*scalar.BitBuf); !isBuf {
				fmt.Fprintf(h, "%s %s|", plainValue(s.ScalarActual()), plainValue(s.ScalarSym()))
				if os.Getenv("HTWINS_DEBUG") != "" {
					fmt.Fprintf(os.Stderr, "  %s %T %v %v\n", w.Name, w.V, s.ScalarActual(), s.ScalarSym())
				}
			}
		}
		return nil
	})
	return h.Sum64(), n
}

// plainValue prints numbers, strings, booleans and byte slices; anything else
// (values that hold readers or pointers) by its type only.
func plainValue(v any) string {
	switch x := v.(type) {
	case nil:
		return "nil"
	case int, int8, int16, int32, int64, uint, uint8, uint16, uint32, uint64, float32, float64, bool, string, []byte:
		return fmt.Sprintf("%v", x)
	case *big.Int:
		if x == nil {
			return "nil"
		}
		return x.String()
	}
	return fmt.Sprintf("%T", v)
}

var twinsLone = map[string]uint64{}

func (*htwins) Run(rc *core.RunCtx) *core.RunResult {
	res := core.NewResult()
	t := rc.T
	samples := corpus.MaxSize(8 * 1024)
	if len(samples) == 0 {
		res.Violate("HARNESS", "no-corpus", "htwins", "no samples harvested")
		return res
	}
	si := int((uint64(rc.Idx) + (rc.Seed%1000003)*7919) % uint64(len(samples)))
	s := samples[si]
	groupName := s.Format
	if groupName == "" || t.Intn(8) == 0 {
		groupName = "probe"
	}
	group, err := interp.DefaultRegistry.Group(groupName)
	if err != nil {
		return res
	}
	data := corpus.Data(s)
	nTasks := 2 + t.Intn(2)
	what := fmt.Sprintf("%s as %s, %d decodes at the same time", s.Rel, groupName, nTasks)
	ctx := context.Background()
	type out struct {
		digest uint64
		n      int
		ok     bool
		err    string
	}
	decodeOne := func(yieldAll bool) out {
		disk := &decDisk{data: data, eof: -1, yieldAll: yieldAll}
		v, _, err := decode.Decode(ctx, bitio.NewIOBitReadSeeker(disk), group, decode.Options{IsRoot: true, FillGaps: true})
		o := out{ok: v != nil, err: errStr(err)}
		if v != nil {
			o.digest, o.n = treeDigest(v)
		}
		return o
	}
	key := s.Rel + "|" + groupName
	if !rc.Race {
		// lone decode first (once per worker process)
		if _, ok := twinsLone[key]; !ok || rc.Replay {
			var lone out
			sim := simrt.New(t, simrt.PolSequential, 1<<30)
			sim.WatchdogMs = 3000
			sim.Spawn("lone", false, func() { lone = decodeOne(false) })
			end := sim.Run()
			sim.Close()
			if end != simrt.EndAllDone {
				res.Inconclusive = ""
				res.Probes["lone_decode_abnormal"]++
				twinsLone[key] = 0
				return res // a decode that crashes all by itself is C06's business
			}
			twinsLone[key] = lone.digest ^ uint64(len(lone.err))<<1 | 1
		}
		if twinsLone[key] == 0 {
			return res
		}
	}
	pol := []int{simrt.PolUniform, simrt.PolSticky2, simrt.PolSticky8, simrt.PolPCT}[t.Intn(4)]
	sim := simrt.New(t, pol, 1<<30)
	sim.WatchdogMs = 3000
	outs := make([]out, nTasks)
	for k := 0; k < nTasks; k++ {
		k := k
		sim.Spawn(fmt.Sprintf("decode%d", k), false, func() { outs[k] = decodeOne(true) })
	}
	end := sim.Run()
	st := sim.Stats()
	res.Steps, res.Switches, res.Fingerprint, res.Pairs = st.Steps, st.Switches, st.Fingerprint^fnv64(0, []byte(key)), sim.Pairs()
	panicVal, panicStack := sim.PanicVal, sim.PanicStack
	sim.Close()
	res.Nontrivial = st.Switches > nTasks
	res.Sample = map[string]any{"case": what, "policy": st.Policy, "switches": st.Switches}
	res.Probes["twin_decodes"] += nTasks
	switch end {
	case simrt.EndPanic:
		if rc.Race {
			return res
		}
		// the lone decode did not panic
		fn, class := core.PanicKey(panicVal, panicStack)
		res.Violate("C18", "panic", fn+":"+class, what+": a decode that succeeds alone panicked next to its twin: "+panicVal+"\n"+firstN(panicStack, 2500))
		return res
	case simrt.EndAllDone:
	default:
		res.Inconclusive = "step budget or deadlock in a twin decode"
		return res
	}
	if rc.Race {
		return res
	}
	for k, o := range outs {
		if d := o.digest ^ uint64(len(o.err))<<1 | 1; d != twinsLone[key] {
			res.Violate("C18", "twin-differs-from-lone-decode", "decode", fmt.Sprintf("%s: decode %d gave a different tree (%d values, error %q) than the lone decode of the same bytes", what, k, o.n, o.err))
			return res
		}
	}
	res.Probes["twins_equal_lone"]++
	return res
}
