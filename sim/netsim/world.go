package netsim

import (
	"bytes"
	"fmt"
)

// Params selects the harness configuration.
type Params struct {
	Omission bool // the tap itself omits 1..2 data segments
	Wide     bool // report-only: reorderings beyond what C19 promises (SYN/FIN swaps, larger displacement, FIN before earlier data)
	Snaplen  bool // the capture is taken with a snap length below the size of some data frames (no fragmenting router)
	NoSYN    bool // the tap omits the client's SYN, or SYN and SYN-ACK, of most connections: the capture starts inside the handshake
	V4Only   bool // every connection over IPv4 (for harnesses whose subject is not the address family)
	Large    bool // a connection with segments of 30..64 KiB (TSO-like, 40..260 KiB per direction), one of them overtaken by the next 1..3 or omitted by the tap
}

// Fault kinds that can fire in a run.
const (
	FLossBefore     = iota // packet lost before the tap: the capture holds only the retransmission
	FLossAfter             // packet lost after the tap: the capture holds the original and the retransmission
	FDuplicate             // the network duplicated a packet in front of the tap
	FReorder               // a packet was overtaken by 1..3 later packets of its direction
	FReorderData           // ... a data segment overtaken by later data of the same direction
	FFragment              // the router fragmented a datagram
	FFragReorder           // two neighbouring fragments of a datagram swapped
	FFragLoss              // one fragment lost before the tap (the datagram is retransmitted whole)
	FTapOmission           // the tap omitted a data segment (all or one of its fragments)
	FSeqWrap               // a direction whose sequence numbers pass 2^32 between SYN and FIN
	FRetx                  // retransmission after a timeout
	FSpuriousRetx          // ... of a segment that had in fact arrived (its ACK was late or lost)
	FRetxReseg             // ... with different segment boundaries (overlap with identical content)
	FWideSynFin            // wide only: SYN/FIN packet held back or overtaken
	FEthPad                // short Ethernet frame padded to 60 bytes
	FSnapTrunc             // a frame longer than the snap length: only its head is in the capture
	FSnapCut               // ... and TCP payload bytes are cut off
	FSynOmission           // the tap omitted a SYN or SYN-ACK
	FLargeSegment          // a data segment of 30 KiB or more passed the tap
	FLargeBehindGap        // ... while an earlier segment of its direction was still held back or had been omitted
	NumFaults
)

var FaultNames = [NumFaults]string{"loss_before_tap", "loss_after_tap", "duplicate", "reorder", "reorder_data", "fragment", "frag_reorder", "frag_loss", "tap_omission", "seq_wrap", "retransmission", "spurious_retx", "retx_resegment", "wide_synfin_reorder", "eth_padding", "snaplen_truncation", "snaplen_payload_cut", "syn_omission", "large_segment", "large_segment_behind_gap"}

type Host struct {
	IP    [4]byte
	IP6   [16]byte // every host has an address of either family; a connection uses one family
	MAC   [6]byte
	ipID  uint16
	ttl   uint8
	tos   uint8
	Index int
}

func (h *Host) nextID() uint16 {
	h.ipID++
	return h.ipID
}

type Conn struct {
	Idx   int
	Ends  [2]*Endpoint // client, server
	Start int64
	paths [2]path
	// omitSyn: 0 = the tap sees the whole handshake, 1 = it omits the
	// client's SYN (every copy), 2 = every SYN and SYN-ACK
	omitSyn int
	jumbo   bool
	// V6: the connection is carried over IPv6 (between the hosts' IPv6
	// addresses); it never passes the IPv4-fragmenting router
	V6 bool
}

// path is one direction of one connection through the network.
type path struct {
	d1, jitter  int64 // sender -> tap
	d2          int64 // tap -> receiver
	lastTap     int64
	lastDeliver int64
	held        []*heldPkt
	gapOpen     bool // the tap omitted a data segment of this direction
}

type heldPkt struct {
	p             *packet
	left          int
	overtaken     int
	overtakenData int
	overtakenSF   bool
	released      bool
}

type packet struct {
	from      *Endpoint
	flags     uint8
	seqOff    uint64
	dataOff   int
	payLen    int
	seg       int // index into from.segs, -1 for pure ACKs and re-segmented retransmissions
	raw       []byte
	xmit      int
	hold      int
	loseFrag  int // 1-based index of the fragment lost before the tap
	lossAfter bool
	isDup     bool
}

// TapRec is one packet as seen by the capture tap, with the ground truth the
// oracle needs.
type TapRec struct {
	T       int64  // simulated nanoseconds
	IP      []byte // IPv4 packet or fragment, or IPv6 packet
	Whole   []byte // the datagram before the router (== IP unless fragmented)
	V6      bool
	SrcHost int
	Conn    int
	Side    int // 0 = sent by the client
	Flags   uint8
	SeqOff  uint64
	DataOff int
	PayLen  int
	Xmit    int // transmission number: fragments and network duplicates of one transmission share it
	Frag    int // 0-based fragment index
	NFrag   int
	Omitted bool // omitted by the tap: not part of the capture
	Cut     int  // payload bytes at the end of the segment that the snap length cut off (set by WriteCapture)
}

type event struct {
	t   int64
	seq uint64
	fn  func()
}

type World struct {
	c      Chooser
	P      Params
	Hosts  []*Host
	Conns  []*Conn
	MTU    int // 0 = no fragmenting router
	Tap    []TapRec
	Faults [NumFaults]int
	Events int
	Now    int64
	Err    string // generator self-check failure (a harness bug, never a finding)
	// FamMode: 0 = every connection over IPv4, 1 = every connection over
	// IPv6, 2 = drawn per connection (mixed capture)
	FamMode int

	now         int64
	q           []event
	evSeq       uint64
	xmit        int
	ipFlags     uint16
	faultLevel  int
	faultBudget int
	lastTapT    int64
	fragReorder bool
	dataPassed  int
	omitAt      []int
	omitEnabled bool
	LastFaultEv int
}

const maxEvents = 400000

func (w *World) at(t int64, fn func()) {
	if t < w.now {
		t = w.now
	}
	w.evSeq++
	w.q = append(w.q, event{t, w.evSeq, fn})
	i := len(w.q) - 1
	for i > 0 {
		p := (i - 1) / 2
		if !evLess(&w.q[i], &w.q[p]) {
			break
		}
		w.q[i], w.q[p] = w.q[p], w.q[i]
		i = p
	}
}

func evLess(a, b *event) bool {
	if a.t != b.t {
		return a.t < b.t
	}
	return a.seq < b.seq
}

func (w *World) pop() event {
	top := w.q[0]
	n := len(w.q) - 1
	w.q[0] = w.q[n]
	w.q[n] = event{}
	w.q = w.q[:n]
	i := 0
	for {
		l, r, m := 2*i+1, 2*i+2, i
		if l < n && evLess(&w.q[l], &w.q[m]) {
			m = l
		}
		if r < n && evLess(&w.q[r], &w.q[m]) {
			m = r
		}
		if m == i {
			break
		}
		w.q[i], w.q[m] = w.q[m], w.q[i]
		i = m
	}
	return top
}

const (
	us = int64(1000)
	ms = int64(1000000)
)

// Generate draws a world from the tape.
func Generate(c Chooser, p Params) *World {
	w := &World{c: c, P: p}
	// fault level: 0 = fault-free network
	w.faultLevel = pick(c, 2, 0, 1, 2, 3, 1)
	w.faultBudget = 2 + c.Intn(14)
	if p.Omission {
		w.faultLevel = pick(c, 0, 0, 1, 1, 2)
	}
	nConn := pick(c, 1, 1, 2, 1, 3, 2, 1, 4, 2, 1, 5, 1)
	if p.Large {
		w.faultLevel = pick(c, 1, 0, 1, 2, 0)
		nConn = pick(c, 1, 1, 2, 1, 3)
		w.omitEnabled = chance(c, 1, 2)
	}
	nHost := rng(c, 2, 4)
	runSize := pick(c, 0, 0, 1, 0, 2, 0, 0, 1) // 0: every stream < 2 KiB, 1: up to 16 KiB, 2: up to 64 KiB
	w.FamMode = pick(c, 0, 2, 1, 0, 2, 0, 1, 2)
	if p.V4Only {
		w.FamMode = 0
	}
	for i := 0; i < nHost; i++ {
		h := &Host{Index: i}
		for try := 0; ; try++ {
			switch c.Intn(5) {
			case 0:
				h.IP = [4]byte{10, byte(c.Intn(256)), byte(c.Intn(256)), byte(1 + c.Intn(254))}
			case 1:
				h.IP = [4]byte{192, 168, byte(c.Intn(256)), byte(1 + c.Intn(254))}
			case 2:
				h.IP = [4]byte{172, byte(16 + c.Intn(16)), byte(c.Intn(256)), byte(1 + c.Intn(254))}
			case 3:
				h.IP = [4]byte{byte(1 + c.Intn(223)), byte(c.Intn(256)), byte(c.Intn(256)), byte(c.Intn(256))}
			case 4:
				h.IP = [4]byte{127, 0, 0, byte(1 + c.Intn(254))}
			}
			if try > 3 {
				h.IP[2], h.IP[3] = byte(try), byte(1+i)
			}
			dup := false
			for _, o := range w.Hosts {
				if o.IP == h.IP {
					dup = true
				}
			}
			if !dup {
				break
			}
		}
		h.MAC = [6]byte{0x02, byte(c.Intn(256)), byte(c.Intn(256)), byte(c.Intn(256)), byte(c.Intn(256)), byte(i)}
		for try := 0; ; try++ {
			h.IP6 = drawIPv6(c, h.MAC, h.IP)
			if try > 3 {
				h.IP6[0], h.IP6[1], h.IP6[14], h.IP6[15] = 0x20, 0x01, byte(try), byte(1+i)
			}
			dup := false
			for _, o := range w.Hosts {
				if o.IP6 == h.IP6 {
					dup = true
				}
			}
			if !dup {
				break
			}
		}
		h.ipID = uint16(pick(c, 0, 1, 0xfff0, 0x7ff8, c.Intn(65536)))
		h.ttl = uint8(pick(c, 64, 128, 255, 1))
		h.tos = uint8(pick(c, 0, 0, 0x10, 0xb8))
		w.Hosts = append(w.Hosts, h)
	}
	// the router
	if c.Intn(5) >= 3 {
		w.MTU = pick(c, 576, 68, 296, 1006, 1280, 1500, 68+c.Intn(1433))
		w.fragReorder = chance(c, 1, 3)
	}
	if p.Snaplen {
		w.MTU = 0 // what a reader should make of a truncated fragment is not stated
	}
	if p.Large && w.MTU > 0 {
		if w.MTU < 1006 {
			w.MTU = 1500 // at most ~45 fragments per segment
		}
		if chance(c, 1, 2) {
			w.MTU = 0 // mostly captured unfragmented, as with segmentation offload
		}
	}
	if w.MTU == 0 && chance(c, 1, 2) {
		w.ipFlags = ipDF
	}
	if w.omitEnabled {
		w.omitAt = []int{c.Intn(4)}
	}
	if p.Omission {
		w.omitEnabled = true
		w.omitAt = []int{c.Intn(6)}
		if chance(c, 1, 3) {
			w.omitAt = append(w.omitAt, w.omitAt[0]+1+c.Intn(8))
		}
	}
	var start int64
	for i := 0; i < nConn; i++ {
		cn := &Conn{Idx: i}
		if p.NoSYN {
			cn.omitSyn = pick(c, 1, 2, 1, 0, 2)
		}
		cn.jumbo = p.Large && (i == 0 || chance(c, 1, 4))
		if fam := c.Intn(2); w.FamMode == 1 || (w.FamMode == 2 && fam == 1) {
			cn.V6 = true
		}
		jumboSide := 0
		if cn.jumbo {
			jumboSide = c.Intn(3) // 2 = both directions
		}
		var ch, sh *Host
		var cp, sp uint16
		for try := 0; ; try++ {
			ch = w.Hosts[c.Intn(nHost)]
			sh = w.Hosts[c.Intn(nHost)]
			if sh == ch && chance(c, 7, 8) {
				sh = w.Hosts[(ch.Index+1)%nHost]
			}
			cp = uint16(pick(c, 1024+c.Intn(64512), 32768+c.Intn(28232), 1+c.Intn(65535), 65535))
			sp = uint16(pick(c, 80, 443, 53, 1935, 22, 8080, 1+c.Intn(65535), 1+c.Intn(1023)))
			if try > 20 {
				cp = uint16(20000 + 10*i + try)
			}
			if cn.jumbo && sp == 1935 {
				sp = 1936 // fq's rtmp decoder spends ~100 ms on 200 KiB of noise; stream formats are not the subject here
			}
			ok := !(ch == sh && cp == sp)
			for _, o := range w.Conns {
				a, b := o.Ends[0], o.Ends[1]
				if (a.host == ch && a.Port == cp && b.host == sh && b.Port == sp) || (a.host == sh && a.Port == sp && b.host == ch && b.Port == cp) {
					ok = false
				}
			}
			if ok {
				break
			}
		}
		tsBoth := chance(c, 1, 3)
		for side := 0; side < 2; side++ {
			e := &Endpoint{conn: cn, side: side}
			if side == 0 {
				e.host, e.Port = ch, cp
			} else {
				e.host, e.Port = sh, sp
			}
			switch c.Intn(8) {
			case 0:
				e.ISS = uint32(c.Intn(1<<16))<<16 | uint32(c.Intn(1<<16))
			case 1:
				e.ISS = 0xffffffff - uint32(c.Intn(3000)) // wraps within the first segments
			case 2:
				e.ISS = 0xffffffff - uint32(c.Intn(70000))
			case 3:
				e.ISS = 0x7fffffff - uint32(c.Intn(3000)) // sign boundary
			case 4:
				e.ISS = uint32(c.Intn(2))
			case 5:
				e.ISS = 0xffffffff
			case 6:
				e.ISS = 0xbfffffff - uint32(c.Intn(70000)) + 35000
			case 7:
				e.ISS = uint32(1+c.Intn(1<<15))<<16 | uint32(c.Intn(1<<16))
			}
			var n int
			szc := pick(c, 1, 0, 1, 1, 2, 2, 3, 1, 2, 1, 0, 1, 2, 1, 4, 1)
			if szc > 2+runSize {
				szc = 1 // most runs are small: large transfers only in runs drawn as large
			}
			switch szc {
			case 0:
				n = 0
			case 1:
				n = 1 + c.Intn(200)
			case 2:
				n = 200 + c.Intn(1849)
			case 3:
				n = 2048 + c.Intn(14337)
			case 4:
				n = 16384 + c.Intn(49153)
			}
			e.jumbo = cn.jumbo && (jumboSide == 2 || jumboSide == side)
			if e.jumbo {
				n = 40000 + c.Intn(220001)
			}
			e.Data, e.payStyle = genPayload(c, n, byte(0x40+i*2+side))
			e.advMSS = pick(c, 1460, 536, 1220, 1460, 8960, 65495, 100, 1400)
			e.tsOpt = tsBoth || chance(c, 1, 8)
			e.sackPerm = chance(c, 1, 2)
			e.wscale = -1
			if chance(c, 1, 2) {
				e.wscale = c.Intn(15)
			}
			e.window = uint16(pick(c, 65535, 29200, 8192, 1+c.Intn(65535)))
			e.closeMode = pick(c, closeActive, closeActive, closePassive, closeActive, closeNever, closePassive)
			e.finWithData = chance(c, 1, 3)
			e.ackEvery = pick(c, 1, 2, 1, 2, 4)
			e.delAck = int64(pick(c, 500, 40, 5000, 200)) * us
			e.rto0 = int64(pick(c, 200, 20, 200, 1000, 50, 3, 100)) * ms
			e.rto = e.rto0
			e.smallCuts = chance(c, 1, 3)
			e.reseg = chance(c, 1, 4)
			e.eagerFin = p.Wide && chance(c, 1, 2)
			if cn.V6 {
				e.flow = uint32(pick(c, 0, c.Intn(1<<20), 0xfffff, c.Intn(1<<20)))
				// one extension header in front of TCP: none, hop-by-hop
				// options or destination options, of 8, 16 or 24 bytes
				kind := pick(c, 0, 0, 1, 2, 0, 0)
				units := pick(c, 1, 2, 1, 3)
				if GenExtHeaders && kind != 0 {
					e.extKind = [3]uint8{0, nhHopByHop, nhDestOpts}[kind]
					e.ext = extHeader6(nhTCP, units)
				}
			}
			cn.Ends[side] = e
		}
		cn.Ends[0].peer, cn.Ends[1].peer = cn.Ends[1], cn.Ends[0]
		for side := 0; side < 2; side++ {
			e := cn.Ends[side]
			// largest segment: bounded by what the peer announced, by the
			// timestamp option, by the router (at most ~6 fragments per
			// datagram) and so that one direction has at most ~64 segments
			m := e.peer.advMSS
			if o := pick(c, 1460, 1460, 536, 100, 1+c.Intn(1460), 1+c.Intn(64), 65495); o < m {
				m = o
			}
			if e.tsOpt && e.peer.tsOpt {
				m -= 12
			}
			if w.MTU > 0 && m > 6*w.MTU {
				m = 6 * w.MTU
			}
			if e.jumbo {
				// TSO-like: one segment far larger than any MTU
				m = 30000 + c.Intn(35484)
				e.smallCuts = false
				e.peer.advMSS = 65495
				if e.wscale < 2 {
					e.wscale, e.peer.wscale = 7, 7
				}
			}
			if m > 65495-12 {
				m = 65495 - 12
			}
			if cn.V6 && m > 65495-12-24 {
				m = 65495 - 12 - 24 // the IPv6 payload length counts the extension header
			}
			if lo := (len(e.Data) + 63) / 64; m < lo {
				m = lo
			}
			if m < 1 {
				m = 1
			}
			e.segMax = m
			e.wnd = m * pick(c, 4, 1, 2, 10, 44, 3)
			if e.jumbo {
				// at least two segments in flight, so that one can overtake the other
				e.wnd = m * pick(c, 2, 3, 4, 4)
				e.forceHoldSeg = 1 + c.Intn(2) // first or second data segment (segs[0] is the SYN)
				e.forceHold = 1 + c.Intn(3)
			} else if e.wnd > 65535 {
				e.wnd = 65535
			}
			if e.wnd < m {
				e.wnd = m
			}
			// application writes
			n := len(e.Data)
			k := pick(c, 1, 1, 2, 1, 3, 4)
			if e.jumbo {
				k = 1 // everything is written at once, so that segments leave back to back
			}
			rest := n
			for j := 0; j < k; j++ {
				sz := rest
				if j < k-1 && rest > 0 {
					sz = c.Intn(rest + 1)
				}
				e.appChunks = append(e.appChunks, sz)
				rest -= sz
				if j < k-1 {
					e.appDelays = append(e.appDelays, int64(pick(c, 100, 1000, 20000, 1+c.Intn(50000)))*us)
				}
			}
			if side == 1 && chance(c, 1, 2) {
				e.startAfter = c.Intn(len(e.peer.Data) + 1)
			}
			pt := &cn.paths[side]
			pt.d1 = int64(rng(c, 30, 3000)) * us
			pt.jitter = int64(pick(c, 0, 10, 200, 2000)) * us
			pt.d2 = int64(rng(c, 30, 3000)) * us
			if uint64(e.ISS)+uint64(len(e.Data))+1 >= 1<<32 {
				w.Faults[FSeqWrap]++
			}
		}
		// connections overlap, follow each other closely or start much later
		switch c.Intn(4) {
		case 0, 1:
			start += int64(c.Intn(3000)) * us
		case 2:
			start += int64(c.Intn(40)) * ms
		case 3:
			start += int64(c.Intn(2000)) * ms
		}
		cn.Start = start
		w.Conns = append(w.Conns, cn)
	}
	return w
}

// MayLoseBytes: the configuration of this run lets the capture lack stream
// bytes (tap omission, snap length, report-only shuffles). Otherwise a hole
// in the capture is a generator bug.
func (w *World) MayLoseBytes() bool { return w.omitEnabled || w.P.Snaplen || w.P.Wide }

// Run executes the simulation until nothing is left to happen.
func (w *World) Run() {
	defer func() {
		w.Now = w.now
	}()
	for _, cn := range w.Conns {
		cn := cn
		w.at(cn.Start, func() { cn.Ends[0].sendSYN(w) })
	}
	for len(w.q) > 0 {
		ev := w.pop()
		w.now = ev.t
		w.Events++
		if w.Events > maxEvents {
			w.Err = "generator-stuck: event budget exhausted"
			return
		}
		ev.fn()
		if w.Err != "" {
			return
		}
	}
	// self-check: the simulated TCP delivered every stream intact
	for _, cn := range w.Conns {
		for side := 0; side < 2; side++ {
			e := cn.Ends[side]
			if !bytes.Equal(e.Rcvd, e.peer.Data) {
				w.Err = fmt.Sprintf("generator-stream-broken: conn %d side %d received %d bytes, peer sent %d", cn.Idx, side, len(e.Rcvd), len(e.peer.Data))
				return
			}
			if len(cn.paths[side].held) != 0 {
				w.Err = "generator: packets still held at the end"
				return
			}
		}
	}
	if w.Events-w.LastFaultEv > 2000+w.settleSlack() {
		w.Err = fmt.Sprintf("generator-liveness: %d events after the last fault", w.Events-w.LastFaultEv)
	}
	if w.P.Wide {
		w.wideShuffle()
	}
}

// wideShuffle (report-only configuration) swaps neighbouring records of the
// capture, whatever they are: SYN after SYN-ACK, data before the SYN, FIN
// before the last data. Timestamps stay in order.
func (w *World) wideShuffle() {
	n := len(w.Tap)
	if n < 2 {
		return
	}
	k := w.c.Intn(4)
	for ; k > 0; k-- {
		i := w.c.Intn(n - 1)
		if w.c.Intn(3) == 0 {
			i = w.c.Intn(minInt(n-1, 4)) // around the handshake
		}
		a, b := &w.Tap[i], &w.Tap[i+1]
		if a.Xmit == b.Xmit {
			continue
		}
		*a, *b = *b, *a
		a.T, b.T = b.T, a.T
		if (a.Flags|b.Flags)&(FlagSYN|FlagFIN) != 0 {
			w.Faults[FWideSynFin]++
		} else {
			w.Faults[FReorder]++
		}
	}
}

func minInt(a, b int) int {
	if a < b {
		return a
	}
	return b
}

// settleSlack is the number of events a fault-free transfer of everything
// may take (the liveness bound of DESIGN C19 is on top of that).
func (w *World) settleSlack() int {
	n := 0
	for _, cn := range w.Conns {
		for side := 0; side < 2; side++ {
			e := cn.Ends[side]
			n += 40 + 8*(len(e.Data)/e.segMax+1)*3
		}
	}
	return n
}

func (w *World) fault(kind int) {
	w.Faults[kind]++
	w.LastFaultEv = w.Events
}

// drawFault picks what the network does to one transmission. A zero draw is
// "nothing".
func (w *World) drawFault() int {
	const (
		none = iota
		lossBefore
		lossAfter
		dup
		hold
	)
	if w.faultLevel == 0 || w.faultBudget <= 0 {
		return none
	}
	x := w.c.Intn(1000)
	var per int // per mille for each of the four kinds
	switch w.faultLevel {
	case 1:
		per = 8
	case 2:
		per = 30
	default:
		per = 70
	}
	if x < 1000-4*per {
		return none
	}
	w.faultBudget--
	return 1 + (x-(1000-4*per))/per
}

// transmit sends a packet from its endpoint into the network.
func (w *World) transmit(p *packet) {
	w.xmit++
	p.xmit = w.xmit
	cn := p.from.conn
	pt := &cn.paths[p.from.side]
	d := pt.d1
	if pt.jitter > 0 {
		d += int64(w.c.Intn(int(pt.jitter/us)+1)) * us
	}
	t := w.now + d
	if t <= pt.lastTap {
		t = pt.lastTap + 1
	}
	pt.lastTap = t
	synfin := p.flags&(FlagSYN|FlagFIN) != 0
	if e := p.from; e.jumbo && !w.omitEnabled && !synfin && p.seg == e.forceHoldSeg && e.segs[p.seg].tx == 1 {
		// the large segment is overtaken by the one or two behind it
		p.hold = e.forceHold
		w.at(t, func() { w.tapArrive(p) })
		return
	}
	switch w.drawFault() {
	case 1: // lost before the tap
		nf := 1
		if w.MTU > 0 && !cn.V6 && len(p.raw) > w.MTU {
			nf = (len(p.raw) - 20 + (w.MTU-20)/8*8 - 1) / ((w.MTU - 20) / 8 * 8)
		}
		if nf > 1 && chance(w.c, 1, 2) {
			// the router fragmented it and one fragment was lost
			p.loseFrag = 1 + w.c.Intn(nf)
			break
		}
		w.fault(FLossBefore)
		return
	case 2:
		p.lossAfter = true
	case 3:
		w.fault(FDuplicate)
		cp := *p
		cp.isDup = true
		dt := int64(1)
		if !synfin {
			dt = int64(1+w.c.Intn(20)) * us
		}
		w.at(t+dt, func() { w.tapArrive(&cp) })
	case 4:
		if w.P.Wide {
			p.hold = 1 + w.c.Intn(8)
		} else if !synfin {
			p.hold = 1 + w.c.Intn(3)
		}
	}
	w.at(t, func() { w.tapArrive(p) })
}

const holdTimeout = 2 * ms

// tapArrive: the packet reaches the router in front of the tap.
func (w *World) tapArrive(p *packet) {
	pt := &p.from.conn.paths[p.from.side]
	synfin := p.flags&(FlagSYN|FlagFIN) != 0
	if !w.P.Wide && synfin {
		// C19 promises local reordering of segments within the established
		// phase only: nothing is carried across a SYN or FIN of its direction
		for len(pt.held) > 0 {
			w.release(pt, pt.held[0])
		}
	}
	if p.hold > 0 {
		h := &heldPkt{p: p, left: p.hold}
		p.hold = 0
		pt.held = append(pt.held, h)
		w.at(w.now+holdTimeout, func() { w.release(pt, h) })
		return
	}
	w.tapPass(p)
	if p.isDup {
		return
	}
	for i := 0; i < len(pt.held); {
		h := pt.held[i]
		h.left--
		h.overtaken++
		if p.payLen > 0 && h.p.payLen > 0 {
			h.overtakenData++
		}
		if synfin || h.p.flags&(FlagSYN|FlagFIN) != 0 {
			h.overtakenSF = true
		}
		if h.left <= 0 {
			w.release(pt, h) // removes it from pt.held
			continue
		}
		i++
	}
}

func (w *World) release(pt *path, h *heldPkt) {
	if h.released {
		return
	}
	h.released = true
	for i := range pt.held {
		if pt.held[i] == h {
			pt.held = append(pt.held[:i], pt.held[i+1:]...)
			break
		}
	}
	if h.overtaken > 0 {
		w.fault(FReorder)
		if h.overtakenData > 0 {
			w.fault(FReorderData)
		}
		if h.overtakenSF {
			w.fault(FWideSynFin)
		}
	}
	w.tapPass(h.p)
}

// tapPass: the router fragments if it has to, the tap records, and the packet
// travels on to the receiver.
func (w *World) tapPass(p *packet) {
	e := p.from
	frags := [][]byte{p.raw}
	order := []int{0}
	if w.MTU > 0 && !e.conn.V6 && len(p.raw) > w.MTU { // the fragmenting router is on the IPv4 path only
		frags = fragmentIPv4(p.raw, w.MTU)
		w.fault(FFragment)
		order = order[:0]
		for i := range frags {
			order = append(order, i)
		}
		if w.fragReorder && w.faultLevel > 0 && chance(w.c, 1, 4) {
			i := w.c.Intn(len(frags) - 1)
			order[i], order[i+1] = order[i+1], order[i]
			w.fault(FFragReorder)
		}
	}
	omitFrag := -2 // -1 = all
	if p.payLen > 0 && !p.isDup {
		for _, at := range w.omitAt {
			if at == w.dataPassed {
				omitFrag = -1
				if len(frags) > 1 && chance(w.c, 1, 2) {
					omitFrag = w.c.Intn(len(frags))
				}
				w.fault(FTapOmission)
			}
		}
		w.dataPassed++
	}
	if cn := e.conn; p.flags&FlagSYN != 0 && (cn.omitSyn == 2 || (cn.omitSyn == 1 && e.side == 0)) {
		omitFrag = -1
		w.fault(FSynOmission)
	}
	pt0 := &e.conn.paths[e.side]
	if omitFrag != -2 && p.payLen > 0 {
		pt0.gapOpen = true
	}
	if p.payLen >= 30000 && omitFrag == -2 {
		w.Faults[FLargeSegment]++
		if pt0.gapOpen || len(pt0.held) > 0 {
			w.Faults[FLargeBehindGap]++
		}
	}
	for _, i := range order {
		if p.loseFrag == i+1 {
			continue
		}
		t := w.now
		if t <= w.lastTapT {
			t = w.lastTapT + 1
		}
		w.lastTapT = t
		w.Tap = append(w.Tap, TapRec{T: t, IP: frags[i], Whole: p.raw, V6: e.conn.V6, SrcHost: e.host.Index, Conn: e.conn.Idx, Side: e.side, Flags: p.flags,
			SeqOff: p.seqOff, DataOff: p.dataOff, PayLen: p.payLen, Xmit: p.xmit, Frag: i, NFrag: len(frags),
			Omitted: omitFrag == -1 || omitFrag == i})
	}
	if p.loseFrag > 0 {
		w.fault(FFragLoss)
		return
	}
	if p.lossAfter {
		w.fault(FLossAfter)
		return
	}
	pt := &e.conn.paths[e.side]
	t := w.now + pt.d2
	if t <= pt.lastDeliver {
		t = pt.lastDeliver + 1
	}
	pt.lastDeliver = t
	w.at(t, func() { w.deliver(p, frags, order) })
}

// deliver: the receiving host reassembles, verifies and hands to its TCP.
func (w *World) deliver(p *packet, frags [][]byte, order []int) {
	arrived := make([][]byte, 0, len(frags))
	for _, i := range order {
		arrived = append(arrived, frags[i])
	}
	var src, dstA Addr
	var seg []byte
	if p.from.conn.V6 {
		if len(arrived) != 1 || !bytes.Equal(arrived[0], p.raw) {
			w.Err = "generator-ip6: an IPv6 packet was fragmented"
			return
		}
		ih, s6, err := parseIPv6(arrived[0])
		if err != nil || ih.proto != nhTCP || ih.totalLen != len(p.raw) {
			w.Err = fmt.Sprintf("generator-ip6: %v (upper layer %d)", err, ih.proto)
			return
		}
		src, dstA, seg = addr6(ih.src), addr6(ih.dst), s6
	} else {
		ip, err := reassembleIPv4(arrived)
		if err != nil {
			w.Err = "generator-fragmenter: " + err.Error()
			return
		}
		if !bytes.Equal(ip, p.raw) {
			w.Err = "generator-fragmenter: reassembled datagram differs from the one sent"
			return
		}
		ih, s4, err := parseIPv4(ip)
		if err != nil || ih.proto != 6 {
			w.Err = fmt.Sprintf("generator-ip: %v", err)
			return
		}
		src, dstA, seg = addr4(ih.src), addr4(ih.dst), s4
	}
	th, payload, err := parseTCPAddr(src, dstA, seg)
	if err != nil {
		w.Err = "generator-tcp: " + err.Error()
		return
	}
	// demultiplex by the four-tuple
	var dst *Endpoint
	for _, cn := range w.Conns {
		for side := 0; side < 2; side++ {
			e := cn.Ends[side]
			if e.Addr() == dstA && e.Port == th.dp && e.peer.Addr() == src && e.peer.Port == th.sp {
				dst = e
			}
		}
	}
	if dst == nil || dst != p.from.peer {
		w.Err = "generator-demux: no endpoint for a delivered segment"
		return
	}
	if p.seg >= 0 {
		p.from.segs[p.seg].delivered = true
	}
	dst.input(w, th, payload)
}

// GenExtHeaders: IPv6 connections may carry one hop-by-hop or destination
// options header in front of TCP (verified on the unchanged tree that fq
// reassembles through both, see DESIGN C19).
var GenExtHeaders = true

// drawIPv6 draws a host's IPv6 address. The styles are chosen for what their
// textual form exercises: runs of zero groups at the start, in the middle and
// at the end, two runs of equal length, a single zero group, leading zeros
// within a group.
func drawIPv6(c Chooser, mac [6]byte, ip4 [4]byte) [16]byte {
	var a [16]byte
	g := func(i int, v int) { a[2*i], a[2*i+1] = byte(v>>8), byte(v) }
	switch c.Intn(8) {
	case 0: // documentation prefix, interface identifier in the last group
		g(0, 0x2001)
		g(1, 0x0db8)
		g(2, c.Intn(1<<16))
		g(7, 1+c.Intn(0xffff))
	case 1: // link local with a modified EUI-64 of the MAC
		g(0, 0xfe80)
		a[8], a[9], a[10], a[11], a[12], a[13], a[14], a[15] = mac[0]^2, mac[1], mac[2], 0xff, 0xfe, mac[3], mac[4], mac[5]
	case 2: // unique local, random
		a[0] = 0xfd
		for i := 1; i < 16; i += 2 {
			v := c.Intn(1 << 16)
			a[i] = byte(v >> 8)
			if i+1 < 16 {
				a[i+1] = byte(v)
			}
		}
	case 3, 4: // every group zero, small or random
		for i := 0; i < 8; i++ {
			switch c.Intn(3) {
			case 1:
				g(i, 1+c.Intn(0xff))
			case 2:
				g(i, c.Intn(1<<16))
			}
		}
	case 5: // loopback and its neighbours; one time in sixteen the IPv4-mapped form of the host's IPv4 address
		a[15] = byte(1 + c.Intn(254))
		if c.Intn(16) == 15 {
			a[10], a[11] = 0xff, 0xff
			copy(a[12:], ip4[:])
		}
	case 6: // a prefix followed by zeros only
		g(0, 0x2001)
		g(1, 0x0db8)
		g(2, 1+c.Intn(0xffff))
		if c.Intn(2) == 1 {
			g(3, 1+c.Intn(0xffff))
		}
	case 7: // global unicast with a privacy style identifier
		g(0, 0x2000|c.Intn(0x2000))
		for i := 1; i < 8; i++ {
			g(i, c.Intn(1<<16))
		}
	}
	return a
}
