package main

import (
	"fmt"
	"os"

	"github.com/wader/fq/zzverif/sim/instr"
)

func main() {
	res, err := instr.Run("/repo", "/verif/sim/simrt", os.Args[1], instr.DefaultTargets)
	if err != nil {
		fmt.Println("ERR", err)
		os.Exit(2)
	}
	fmt.Println(res.OverlayPath, res.Files, res.Warnings, res.KnobsFound, len(res.Sites))
}
