// Package simos is the simulated operating system behind fq's interp.OS seam:
// file system and disk with fault injection, terminal, scripted readline,
// interrupt channel, arguments and environment. Every disk call, terminal
// write and readline is a scheduling point.
package simos

import (
	"context"
	"errors"
	"fmt"
	"io"
	"io/fs"
	"strings"
	"time"

	"github.com/wader/fq/internal/simrt"
	"github.com/wader/fq/pkg/interp"
)

const (
	SiteDiskRead = 60200 + iota
	SiteDiskSeek
	SiteDiskStat
	SiteDiskClose
	SiteDiskOpen
	SiteTermWrite
	SiteReadline
	SiteInterrupt
)

func init() {
	for id, n := range map[int]string{SiteDiskRead: "os:read", SiteDiskSeek: "os:seek", SiteDiskStat: "os:stat", SiteDiskClose: "os:close",
		SiteDiskOpen: "os:open", SiteTermWrite: "os:write", SiteReadline: "os:readline", SiteInterrupt: "os:interrupt"} {
		simrt.RegisterSite(id, n)
	}
}

// File kinds.
const (
	Regular = iota
	Stream  // not seekable: fq reads it whole
	Dir
	Missing
	EACCES // open fails with permission denied
	EIOOpen
)

type FileSpec struct {
	Kind int
	Data []byte
}

// Fault kinds (counters).
const (
	FShort = iota
	FZero
	FLatency
	FTransient
	FPersistent
	FPersistentCall
	FEOFEarly
	FSeekEIO
	FStatEIO
	FWriteEPIPE
	NumFaults
)

var FaultNames = [...]string{"disk_short_read", "disk_zero_read", "disk_latency", "disk_eio_transient", "disk_eio_persistent", "disk_eio_persistent_call", "disk_eof_early", "disk_seek_eio", "disk_stat_eio", "term_write_epipe"}

// Planned fault kinds.
const (
	PlanNone = iota
	PlanTransient
	PlanPersistent
	PlanEOF
)

var ErrEIO = errors.New("input/output error")

// Disk is the shared disk behaviour of an OS.
type Disk struct {
	T          *simrt.Tape
	Benign     bool // short reads, zero reads, latency drawn per call
	Errors     bool // transient / persistent EIO drawn per call
	PlanKind   int  // a fault planned for the PlanAt-th disk call (0-based)
	PlanAt     int
	Calls      int
	Counts     [NumFaults]int
	persistent bool
	ErrorFired bool
	// Log keeps the first disk calls (kind, position, size) for diagnostics
	Log    [256][3]int64
	LogLen int
}

//go:norace
func (d *Disk) logCall(kind, pos, n int64) {
	if d.LogLen < len(d.Log) {
		d.Log[d.LogLen] = [3]int64{kind, pos, n}
		d.LogLen++
	}
}

// LogString renders the recorded calls.
func (d *Disk) LogString() string {
	var sb strings.Builder
	for i := 0; i < d.LogLen; i++ {
		e := d.Log[i]
		fmt.Fprintf(&sb, "%d:%c@%d+%d ", i, byte(e[0]), e[1], e[2])
	}
	return sb.String()
}

//go:norace
func (d *Disk) fired() bool { return d.ErrorFired }

// Fired reports whether an error-class fault has been injected.
func (d *Disk) Fired() bool { return d.fired() }

type simFile struct {
	os     *OS
	name   string
	spec   *FileSpec
	pos    int64
	closed bool
	eof    int64 // -1, or the offset at which this handle pretends the file ends
}

type seekFile struct{ *simFile }

func (f seekFile) Seek(off int64, whence int) (int64, error) { return f.simFile.seek(off, whence) }

//go:norace
func (d *Disk) call() (planned int) {
	i := d.Calls
	d.Calls++
	if d.PlanKind != PlanNone && i == d.PlanAt {
		return d.PlanKind
	}
	return PlanNone
}

//go:norace
func (f *simFile) Stat() (fs.FileInfo, error) {
	simrt.Yield(SiteDiskStat)
	d := f.os.Disk
	d.logCall('t', 0, 0)
	pl := d.call()
	if d.persistent || pl == PlanTransient || pl == PlanPersistent {
		if pl == PlanPersistent {
			d.persistent = true
		}
		d.Counts[FStatEIO]++
		d.ErrorFired = true
		return nil, &fs.PathError{Op: "stat", Path: f.name, Err: ErrEIO}
	}
	mode := fs.FileMode(0o644)
	switch f.spec.Kind {
	case Dir:
		mode = fs.ModeDir | 0o755
	case Stream:
		mode = fs.ModeNamedPipe | 0o644
	}
	return interp.FixedFileInfo{FName: f.name, FSize: int64(len(f.spec.Data)), FMode: mode, FIsDir: f.spec.Kind == Dir, FModTime: time.Unix(0, 0)}, nil
}

//go:norace
func (f *simFile) Read(p []byte) (int, error) {
	simrt.Yield(SiteDiskRead)
	d := f.os.Disk
	d.logCall('r', f.pos, int64(len(p)))
	pl := d.call()
	if f.spec.Kind == Dir {
		return 0, &fs.PathError{Op: "read", Path: f.name, Err: errors.New("is a directory")}
	}
	if d.persistent {
		d.Counts[FPersistentCall]++
		return 0, ErrEIO
	}
	switch pl {
	case PlanTransient:
		d.Counts[FTransient]++
		d.ErrorFired = true
		return 0, ErrEIO
	case PlanPersistent:
		d.Counts[FPersistent]++
		d.persistent, d.ErrorFired = true, true
		return 0, ErrEIO
	case PlanEOF:
		d.Counts[FEOFEarly]++
		d.ErrorFired = true
		f.eof = f.pos
	}
	k := 0
	if d.Benign || d.Errors {
		k = d.T.Intn(32)
	}
	if d.Errors {
		switch k {
		case 31:
			d.Counts[FTransient]++
			d.ErrorFired = true
			return 0, ErrEIO
		case 30:
			if d.T.Intn(4) == 0 {
				d.Counts[FPersistent]++
				d.persistent, d.ErrorFired = true, true
				return 0, ErrEIO
			}
		}
	}
	end := int64(len(f.spec.Data))
	if f.eof >= 0 && f.eof < end {
		end = f.eof
	}
	if f.pos >= end {
		return 0, io.EOF
	}
	n := len(p)
	if int64(n) > end-f.pos {
		n = int(end - f.pos)
	}
	if d.Benign {
		switch {
		case k >= 20 && k < 26 && n > 1:
			n = 1 + d.T.Intn(n-1)
			d.Counts[FShort]++
		case k == 26 && len(p) > 0:
			if d.T.Intn(4) == 0 {
				d.Counts[FZero]++
				return 0, nil
			}
		case k == 27:
			simrt.Advance(time.Duration(1+d.T.Intn(300)) * time.Millisecond)
			d.Counts[FLatency]++
		}
	}
	copy(p, f.spec.Data[f.pos:f.pos+int64(n)])
	f.pos += int64(n)
	return n, nil
}

//go:norace
func (f *simFile) seek(off int64, whence int) (int64, error) {
	simrt.Yield(SiteDiskSeek)
	d := f.os.Disk
	d.logCall('s', off, int64(whence))
	pl := d.call()
	if d.persistent {
		d.Counts[FPersistentCall]++
		return 0, ErrEIO
	}
	if pl == PlanTransient || pl == PlanPersistent || (d.Errors && d.T.Intn(64) == 63) {
		if pl == PlanPersistent {
			d.persistent = true
		}
		d.Counts[FSeekEIO]++
		d.ErrorFired = true
		return 0, ErrEIO
	}
	var abs int64
	switch whence {
	case io.SeekStart:
		abs = off
	case io.SeekCurrent:
		abs = f.pos + off
	case io.SeekEnd:
		abs = int64(len(f.spec.Data)) + off
	default:
		return 0, errors.New("invalid whence")
	}
	if abs < 0 {
		return 0, &fs.PathError{Op: "seek", Path: f.name, Err: errors.New("invalid argument")}
	}
	f.pos = abs
	return abs, nil
}

//go:norace
func (f *simFile) Close() error {
	simrt.Yield(SiteDiskClose)
	f.closed = true
	return nil
}

type simFS struct{ os *OS }

func (s simFS) Open(name string) (fs.File, error) { return s.os.open(name) }

//go:norace
func (o *OS) open(name string) (fs.File, error) {
	simrt.Yield(SiteDiskOpen)
	o.Opens++
	spec := o.lookup(name)
	if spec == nil || spec.Kind == Missing {
		return nil, &fs.PathError{Op: "open", Path: name, Err: fs.ErrNotExist}
	}
	switch spec.Kind {
	case EACCES:
		return nil, &fs.PathError{Op: "open", Path: name, Err: fs.ErrPermission}
	case EIOOpen:
		o.Disk.ErrorFired = true
		return nil, &fs.PathError{Op: "open", Path: name, Err: ErrEIO}
	}
	f := &simFile{os: o, name: name, spec: spec, eof: -1}
	if spec.Kind == Regular || spec.Kind == Dir {
		// like *os.File: a directory handle can be seeked, reading it fails
		return seekFile{f}, nil
	}
	return f, nil
}

//go:norace
func (o *OS) lookup(name string) *FileSpec {
	for i := range o.FileNames {
		if o.FileNames[i] == name {
			return o.FileSpecs[i]
		}
	}
	return nil
}

// Term is a captured terminal stream.
type Term struct {
	os        *OS
	Buf       []byte
	WriteAt   []int // scheduler step of each write
	WriteLen  []int
	IsTerm    bool
	W, H      int
	FailAfter int // writes from this index on fail with EPIPE (-1 = never)
	nWrites   int
	// OnWrite, if set, is called at the start of every write (harness bookkeeping)
	OnWrite  func() int
	WriteTag []int // what OnWrite returned for each write
}

var ErrEPIPE = errors.New("broken pipe")

//go:norace
func (t *Term) Write(p []byte) (int, error) {
	simrt.Yield(SiteTermWrite)
	i := t.nWrites
	t.nWrites++
	if t.FailAfter >= 0 && i >= t.FailAfter {
		t.os.Disk.Counts[FWriteEPIPE]++
		return 0, ErrEPIPE
	}
	t.Buf = append(t.Buf, p...)
	if len(t.WriteAt) < 1<<16 {
		t.WriteAt = append(t.WriteAt, t.os.Seq())
		t.WriteLen = append(t.WriteLen, len(p))
		tag := 0
		if t.OnWrite != nil {
			tag = t.OnWrite()
		}
		t.WriteTag = append(t.WriteTag, tag)
	}
	return len(p), nil
}

func (t *Term) Size() (int, int) { return t.W, t.H }
func (t *Term) IsTerminal() bool { return t.IsTerm }

//go:norace
func (t *Term) Bytes() []byte { return t.Buf }

// Line is one scripted answer to a Readline call.
type Line struct {
	Text      string
	EOF       bool // ^D
	Interrupt bool // ^C at the prompt: Readline returns ErrInterrupt
	// Complete, if not empty, is typed and completed (TAB) before the line is
	// entered: Readline calls the completion function fq handed it, the way the
	// real line editor does, while fq sits in Readline
	Complete string
}

// ReadlineEvent records one Readline call.
type ReadlineEvent struct {
	Seq      int // event sequence number when the call was made
	SeqRet   int // ... and when it returned
	Prompt   string
	Line     Line
	OutLen   int // stdout length when the call was made
	Returned bool
	// completion: event numbers around the call of the completion function (0 = none)
	CompSeq, CompRetSeq int
	CompNames           int
}

// OS implements interp.OS.
type OS struct {
	T          *simrt.Tape
	Disk       *Disk
	FileNames  []string
	FileSpecs  []*FileSpec
	ArgsV      []string
	Env        []string
	Out, Err   *Term
	StdinData  []byte
	StdinTerm  bool
	Lines      []Line
	linePos    int
	RL         []ReadlineEvent
	IntCh      chan struct{}
	Opens      int
	seq        int
	OnReadline func(ev *ReadlineEvent) // called (in the fq task) when a Readline call starts
	// HistSeq: event number of every History call (the `history` function of fq:
	// a seam that is only ever called from inside a running evaluation)
	HistSeq []int
	// OnHistoryResume is called (in the fq task) when a History call continues after its
	// scheduling point; pre is the event number of the call
	OnHistoryResume func(pre int)
	// HistoryYields: scheduling points per History call (0 = 1): more of them give the other
	// tasks more chances to run while the calling evaluation is in progress
	HistoryYields int
}

// New returns an OS with fixed defaults.
func New(t *simrt.Tape) *OS {
	o := &OS{T: t, Disk: &Disk{T: t}, IntCh: make(chan struct{}, 1)}
	o.Out = &Term{os: o, IsTerm: false, W: 135, H: 25, FailAfter: -1}
	o.Err = &Term{os: o, IsTerm: false, W: 135, H: 25, FailAfter: -1}
	o.Env = []string{"NO_COLOR=1", "NO_DECODE_PROGRESS=1", "COMPLETION_TIMEOUT=10"}
	o.StdinTerm = true
	return o
}

// Seq is a per-OS event counter (monotonic, unique per call).
//
//go:norace
func (o *OS) Seq() int {
	o.seq++
	return o.seq
}

// SeqNow reads the event counter without advancing it.
//
//go:norace
func (o *OS) SeqNow() int { return o.seq }

// AddFile registers a file.
func (o *OS) AddFile(name string, kind int, data []byte) {
	o.FileNames = append(o.FileNames, name)
	o.FileSpecs = append(o.FileSpecs, &FileSpec{Kind: kind, Data: data})
}

func (o *OS) Platform() interp.Platform {
	return interp.Platform{OS: "simos", Arch: "simarch", GoVersion: "simgo"}
}

type stdin struct {
	interp.FileReader
	o *OS
}

func (s stdin) Size() (int, int) { return 135, 25 }
func (s stdin) IsTerminal() bool { return s.o.StdinTerm }

func (o *OS) Stdin() interp.Input {
	return stdin{FileReader: interp.FileReader{R: strings.NewReader(string(o.StdinData)), FileInfo: interp.FixedFileInfo{FName: "stdin", FMode: fs.ModeIrregular}}, o: o}
}
func (o *OS) Stdout() interp.Output        { return o.Out }
func (o *OS) Stderr() interp.Output        { return o.Err }
func (o *OS) InterruptChan() chan struct{} { return o.IntCh }
func (o *OS) Args() []string               { return o.ArgsV }
func (o *OS) Environ() []string            { return o.Env }
func (o *OS) ConfigDir() (string, error)   { return "/config", nil }
func (o *OS) FS() fs.FS                    { return simFS{o} }

// History is a scheduling point: the task that evaluates `history` parks here
// while its evaluation is in progress.
//
//go:norace
func (o *OS) History() ([]string, error) {
	pre := o.Seq()
	o.HistSeq = append(o.HistSeq, pre)
	simrt.Yield(SiteReadline)
	for i := 1; i < o.HistoryYields; i++ {
		simrt.Yield(SiteReadline)
	}
	if o.OnHistoryResume != nil {
		o.OnHistoryResume(pre)
	}
	return []string{"1", "2"}, nil
}

func (o *OS) Readline(opts interp.ReadlineOpts) (string, error) {
	return o.readline(opts.Prompt, opts.CompleteFn)
}

//go:norace
func (o *OS) readline(prompt string, complete interp.CompleteFn) (string, error) {
	ev := ReadlineEvent{Seq: o.Seq(), Prompt: prompt, OutLen: len(o.Out.Buf)}
	var l Line
	if o.linePos >= len(o.Lines) {
		l = Line{EOF: true}
	} else {
		l = o.Lines[o.linePos]
		o.linePos++
	}
	ev.Line = l
	o.RL = append(o.RL, ev)
	idx := len(o.RL) - 1
	if o.OnReadline != nil {
		o.OnReadline(&o.RL[idx])
	}
	simrt.Yield(SiteReadline)
	if l.Complete != "" && complete != nil {
		o.RL[idx].CompSeq = o.Seq()
		names, _ := complete(l.Complete, len(l.Complete))
		o.RL[idx].CompNames = len(names)
		o.RL[idx].CompRetSeq = o.Seq()
		simrt.Yield(SiteReadline)
	}
	o.RL[idx].SeqRet = o.Seq()
	o.RL[idx].Returned = true
	switch {
	case l.EOF:
		return "", interp.ErrEOF
	case l.Interrupt:
		return "", interp.ErrInterrupt
	}
	return l.Text, nil
}

// Interrupt does what pkg/cli's signal bridge does: a non-blocking send into
// the 1-buffered interrupt channel. It reports whether the send went through.
func (o *OS) Interrupt() bool {
	simrt.Note('f', SiteInterrupt)
	select {
	case o.IntCh <- struct{}{}:
		return true
	default:
		return false
	}
}

// Result of one fq execution.
type Result struct {
	Exit   int
	Err    error
	Stdout []byte
	Stderr []byte
	Panic  string
	Stack  string
}

// RunFQ runs the whole of fq (interp.New + Main + Stop) against this OS, the way
// pkg/cli.Main does, and maps the outcome to an exit status.
func RunFQ(o *OS, reg *interp.Registry) (res Result) {
	i, err := interp.New(o, reg)
	if err != nil {
		res.Exit, res.Err = 1, err
		return
	}
	defer i.Stop()
	err = i.Main(context.Background(), o.Stdout(), "simversion")
	if err != nil {
		res.Err = err
		if ex, ok := err.(interp.Exiter); ok {
			res.Exit = ex.ExitCode()
		} else {
			res.Exit = 1
		}
	}
	res.Stdout, res.Stderr = o.Out.Bytes(), o.Err.Bytes()
	return
}
