// Package instr rewrites selected fq source files of the working tree so that
// scheduling, channel operations, locks, the clock and two size constants go
// through the simulation runtime. Nothing is written into /repo: the result is
// a directory of rewritten copies plus an overlay.json for `go build -overlay`,
// which also injects sim/simrt as github.com/wader/fq/internal/simrt.
package instr

import (
	"bytes"
	"encoding/json"
	"fmt"
	"go/ast"
	"go/format"
	"go/parser"
	"go/printer"
	"go/token"
	"os"
	"path/filepath"
	"sort"
	"strconv"
	"strings"
)

const simrtImport = "github.com/wader/fq/internal/simrt"

// Targets lists what is instrumented, relative to the repository root.
type Targets struct {
	Full    []string `json:"full"`     // yield before every statement + ops
	OpsOnly []string `json:"ops_only"` // selects, channel ops, go, time.Now, knobs
	Knobs   []string `json:"knobs"`    // constant names turned into simrt.Knob
}

// DefaultTargets are the concurrency-, clock- and knob-bearing files of fq.
var DefaultTargets = Targets{
	Full: []string{
		"internal/ctxstack/ctxstack.go",
		"internal/ctxreadseeker/ctxreadseeker.go",
		"internal/iox/iox.go",
	},
	OpsOnly: []string{
		"pkg/interp/interp.go",
		"pkg/interp/decode.go",
		"pkg/interp/binary.go",
	},
	Knobs: []string{"cacheReadAheadSize", "progressPrecision"},
}

// Result describes one instrumentation.
type Result struct {
	OverlayPath string
	Files       map[string]string // repo-relative -> sha256-less summary "n sites"
	Sites       []string
	Warnings    []string
	KnobsFound  []string
}

type instr struct {
	repo     string
	fset     *token.FileSet
	sites    []string
	warnings []string
	knobs    map[string]bool
	knobsHit map[string]bool
	rel      string
	full     bool
	tmpN     int
	src      []byte
	file     *ast.File
}

// Run instruments repo into outDir (created) and returns the overlay path.
func Run(repo, simrtDir, outDir string, tg Targets) (*Result, error) {
	if err := os.MkdirAll(outDir, 0o755); err != nil {
		return nil, err
	}
	in := &instr{repo: repo, knobs: map[string]bool{}, knobsHit: map[string]bool{}}
	for _, k := range tg.Knobs {
		in.knobs[k] = true
	}
	res := &Result{Files: map[string]string{}}
	overlay := map[string]string{}
	do := func(rel string, full bool) error {
		p := filepath.Join(repo, rel)
		src, err := os.ReadFile(p)
		if err != nil {
			if os.IsNotExist(err) {
				in.warnings = append(in.warnings, "target missing: "+rel)
				return nil
			}
			return err
		}
		before := len(in.sites)
		out, err := in.instrumentFile(rel, src, full)
		if err != nil {
			return fmt.Errorf("%s: %w", rel, err)
		}
		dst := filepath.Join(outDir, strings.ReplaceAll(rel, "/", "__"))
		if err := os.WriteFile(dst, out, 0o644); err != nil {
			return err
		}
		overlay[p] = dst
		res.Files[rel] = fmt.Sprintf("%d sites", len(in.sites)-before)
		return nil
	}
	// also pick up new .go files that appear next to fully instrumented ones
	fullSet := map[string]bool{}
	for _, rel := range tg.Full {
		fullSet[rel] = true
		dir := filepath.Dir(rel)
		ents, _ := os.ReadDir(filepath.Join(repo, dir))
		for _, e := range ents {
			n := e.Name()
			if strings.HasSuffix(n, ".go") && !strings.HasSuffix(n, "_test.go") && dir != "internal/iox" {
				fullSet[filepath.Join(dir, n)] = true
			}
		}
	}
	var fulls []string
	for rel := range fullSet {
		fulls = append(fulls, rel)
	}
	sort.Strings(fulls)
	for _, rel := range fulls {
		if err := do(rel, true); err != nil {
			return nil, err
		}
	}
	for _, rel := range tg.OpsOnly {
		if fullSet[rel] {
			continue
		}
		if err := do(rel, false); err != nil {
			return nil, err
		}
	}
	// inject simrt
	ents, err := os.ReadDir(simrtDir)
	if err != nil {
		return nil, err
	}
	for _, e := range ents {
		if strings.HasSuffix(e.Name(), ".go") && !strings.HasSuffix(e.Name(), "_test.go") {
			abs, _ := filepath.Abs(filepath.Join(simrtDir, e.Name()))
			overlay[filepath.Join(repo, "internal/simrt", e.Name())] = abs
		}
	}
	// generated site table
	var sb strings.Builder
	sb.WriteString("package simrt\n\nfunc init() {\n")
	for i, s := range in.sites {
		fmt.Fprintf(&sb, "\tRegisterSite(%d, %s)\n", i, strconv.Quote(s))
	}
	sb.WriteString("}\n")
	sitesPath := filepath.Join(outDir, "sites_gen.go")
	if err := os.WriteFile(sitesPath, []byte(sb.String()), 0o644); err != nil {
		return nil, err
	}
	overlay[filepath.Join(repo, "internal/simrt", "sites_gen.go")] = sitesPath
	ob, _ := json.MarshalIndent(map[string]any{"Replace": overlay}, "", " ")
	res.OverlayPath = filepath.Join(outDir, "overlay.json")
	if err := os.WriteFile(res.OverlayPath, ob, 0o644); err != nil {
		return nil, err
	}
	res.Sites = in.sites
	res.Warnings = in.warnings
	for k := range in.knobsHit {
		res.KnobsFound = append(res.KnobsFound, k)
	}
	sort.Strings(res.KnobsFound)
	return res, nil
}

type splice struct {
	start, end int
	text       string
}

func (in *instr) site(pos token.Pos, kind string) int {
	line := 0
	if pos.IsValid() {
		line = in.fset.Position(pos).Line
	}
	id := len(in.sites)
	in.sites = append(in.sites, fmt.Sprintf("%s:%d:%s", in.rel, line, kind))
	return id
}

func (in *instr) warn(pos token.Pos, msg string) {
	in.warnings = append(in.warnings, fmt.Sprintf("%s:%d: %s", in.rel, in.fset.Position(pos).Line, msg))
}

func (in *instr) instrumentFile(rel string, src []byte, full bool) ([]byte, error) {
	in.fset = token.NewFileSet()
	in.rel = rel
	in.full = full
	in.src = src
	f, err := parser.ParseFile(in.fset, rel, src, parser.ParseComments)
	if err != nil {
		return nil, err
	}
	in.file = f
	var sp []splice
	off := func(p token.Pos) int { return in.fset.Position(p).Offset }
	for _, d := range f.Decls {
		fd, ok := d.(*ast.FuncDecl)
		if !ok || fd.Body == nil {
			continue
		}
		if !full && !in.needsOps(fd.Body) {
			continue
		}
		nb := in.block(fd.Body)
		var buf bytes.Buffer
		if err := printer.Fprint(&buf, in.fset, stripPos(nb)); err != nil {
			return nil, err
		}
		sp = append(sp, splice{off(fd.Body.Pos()), off(fd.Body.End()), buf.String()})
	}
	sort.Slice(sp, func(i, j int) bool { return sp[i].start < sp[j].start })
	var out bytes.Buffer
	last := 0
	for _, s := range sp {
		out.Write(src[last:s.start])
		out.WriteString(s.text)
		last = s.end
	}
	out.Write(src[last:])
	// import, right after the package clause
	res := out.Bytes()
	pkgEnd := off(f.Name.End())
	var fin bytes.Buffer
	fin.Write(res[:pkgEnd])
	fin.WriteString("\n\nimport simrt_ \"" + simrtImport + "\"\n")
	fin.Write(res[pkgEnd:])
	fin.WriteString("\n\nvar _ = simrt_.Active\n")
	fmted, err := format.Source(fin.Bytes())
	if err != nil {
		return nil, fmt.Errorf("instrumented source does not parse: %w", err)
	}
	return fmted, nil
}

// stripPos is a no-op hook: nodes keep their positions; the printer copes with
// the mix of positioned and position-less nodes.
func stripPos(n ast.Node) ast.Node { return n }

// needsOps reports whether an ops-only function body contains anything to rewrite.
func (in *instr) needsOps(b *ast.BlockStmt) bool {
	need := false
	ast.Inspect(b, func(n ast.Node) bool {
		switch x := n.(type) {
		case *ast.SelectStmt, *ast.GoStmt, *ast.SendStmt:
			need = true
		case *ast.UnaryExpr:
			if x.Op == token.ARROW {
				need = true
			}
		case *ast.CallExpr:
			if isPkgCall(x, "time", "Now") {
				need = true
			}
		case *ast.GenDecl:
			if x.Tok == token.CONST {
				for _, s := range x.Specs {
					for _, n := range s.(*ast.ValueSpec).Names {
						if in.knobs[n.Name] {
							need = true
						}
					}
				}
			}
		}
		return true
	})
	return need
}

func isPkgCall(c *ast.CallExpr, pkg, fn string) bool {
	se, ok := c.Fun.(*ast.SelectorExpr)
	if !ok {
		return false
	}
	id, ok := se.X.(*ast.Ident)
	return ok && id.Name == pkg && se.Sel.Name == fn
}

func ident(s string) *ast.Ident { return ast.NewIdent(s) }

func simCall(fn string, args ...ast.Expr) *ast.CallExpr {
	return &ast.CallExpr{Fun: &ast.SelectorExpr{X: ident("simrt_"), Sel: ident(fn)}, Args: args}
}

func intLit(i int) ast.Expr { return &ast.BasicLit{Kind: token.INT, Value: strconv.Itoa(i)} }

func (in *instr) yieldStmt(pos token.Pos, kind string) ast.Stmt {
	return &ast.ExprStmt{X: simCall("Yield", intLit(in.site(pos, kind)))}
}

func (in *instr) tmp(prefix string) string {
	in.tmpN++
	return fmt.Sprintf("_sim%s%d", prefix, in.tmpN)
}

func (in *instr) block(b *ast.BlockStmt) *ast.BlockStmt {
	if b == nil {
		return nil
	}
	return &ast.BlockStmt{List: in.list(b.List)}
}

func (in *instr) list(l []ast.Stmt) []ast.Stmt {
	var out []ast.Stmt
	for _, st := range l {
		if in.full {
			if _, isEmpty := st.(*ast.EmptyStmt); !isEmpty {
				out = append(out, in.yieldStmt(st.Pos(), "stmt"))
			}
		}
		out = append(out, in.stmt(st, nil))
	}
	return out
}

func (in *instr) stmt(st ast.Stmt, label *ast.Ident) ast.Stmt {
	switch s := st.(type) {
	case *ast.BlockStmt:
		return in.block(s)
	case *ast.IfStmt:
		n := *s
		if s.Init != nil {
			n.Init = in.stmt(s.Init, nil)
		}
		n.Cond = in.expr(s.Cond)
		n.Body = in.block(s.Body)
		if s.Else != nil {
			n.Else = in.stmt(s.Else, nil)
		}
		return &n
	case *ast.ForStmt:
		n := *s
		if s.Cond != nil {
			n.Cond = in.expr(s.Cond)
		}
		n.Body = in.block(s.Body)
		return &n
	case *ast.RangeStmt:
		n := *s
		n.X = in.expr(s.X)
		n.Body = in.block(s.Body)
		return &n
	case *ast.SwitchStmt:
		n := *s
		if s.Init != nil {
			n.Init = in.stmt(s.Init, nil)
		}
		if s.Tag != nil {
			n.Tag = in.expr(s.Tag)
		}
		n.Body = in.clauses(s.Body)
		return &n
	case *ast.TypeSwitchStmt:
		n := *s
		n.Body = in.clauses(s.Body)
		return &n
	case *ast.SelectStmt:
		return in.selectStmt(s, label)
	case *ast.LabeledStmt:
		if sel, ok := s.Stmt.(*ast.SelectStmt); ok {
			return in.selectStmt(sel, s.Label)
		}
		n := *s
		n.Stmt = in.stmt(s.Stmt, nil)
		return &n
	case *ast.GoStmt:
		return in.goStmt(s)
	case *ast.DeferStmt:
		n := *s
		n.Call = in.expr(s.Call).(*ast.CallExpr)
		return &n
	case *ast.SendStmt:
		return &ast.ExprStmt{X: simCall("Send", intLit(in.site(s.Pos(), "send")), in.expr(s.Chan), in.expr(s.Value))}
	case *ast.ExprStmt:
		if lk := in.lockCall(s.X); lk != nil {
			return &ast.ExprStmt{X: lk}
		}
		return &ast.ExprStmt{X: in.expr(s.X)}
	case *ast.AssignStmt:
		n := *s
		n.Lhs = in.exprs(s.Lhs)
		if len(s.Lhs) == 2 && len(s.Rhs) == 1 {
			if u, ok := s.Rhs[0].(*ast.UnaryExpr); ok && u.Op == token.ARROW {
				n.Rhs = []ast.Expr{simCall("Recv2", intLit(in.site(u.Pos(), "recv")), in.expr(u.X))}
				return &n
			}
		}
		n.Rhs = in.exprs(s.Rhs)
		return &n
	case *ast.ReturnStmt:
		n := *s
		n.Results = in.exprs(s.Results)
		return &n
	case *ast.DeclStmt:
		return in.declStmt(s)
	case *ast.IncDecStmt, *ast.BranchStmt, *ast.EmptyStmt:
		return st
	}
	return st
}

func (in *instr) clauses(b *ast.BlockStmt) *ast.BlockStmt {
	nb := &ast.BlockStmt{}
	for _, c := range b.List {
		switch cc := c.(type) {
		case *ast.CaseClause:
			n := *cc
			n.List = in.exprs(cc.List)
			n.Body = in.list(cc.Body)
			nb.List = append(nb.List, &n)
		default:
			nb.List = append(nb.List, c)
		}
	}
	return nb
}

func (in *instr) declStmt(s *ast.DeclStmt) ast.Stmt {
	gd, ok := s.Decl.(*ast.GenDecl)
	if !ok {
		return s
	}
	if gd.Tok == token.CONST && len(gd.Specs) == 1 {
		vs := gd.Specs[0].(*ast.ValueSpec)
		if len(vs.Names) == 1 && len(vs.Values) == 1 && in.knobs[vs.Names[0].Name] {
			name := vs.Names[0].Name
			typ := in.knobType(name)
			if typ == "" {
				in.warn(s.Pos(), "knob "+name+": cannot determine type, left constant")
				return s
			}
			in.knobsHit[name] = true
			call := simCall("Knob", &ast.BasicLit{Kind: token.STRING, Value: strconv.Quote(name)}, &ast.CallExpr{Fun: ident("int"), Args: []ast.Expr{vs.Values[0]}})
			return &ast.AssignStmt{Lhs: []ast.Expr{ident(name)}, Tok: token.DEFINE, Rhs: []ast.Expr{&ast.CallExpr{Fun: ident(typ), Args: []ast.Expr{call}}}}
		}
	}
	if gd.Tok == token.VAR {
		ngd := *gd
		ngd.Specs = nil
		for _, sp := range gd.Specs {
			vs := *(sp.(*ast.ValueSpec))
			vs.Values = in.exprs(vs.Values)
			ngd.Specs = append(ngd.Specs, &vs)
		}
		return &ast.DeclStmt{Decl: &ngd}
	}
	return s
}

// knobType finds the parameter type a knob constant is passed as, by looking
// at the callee's declaration (syntactically, one package hop).
func (in *instr) knobType(name string) string {
	typ := ""
	ast.Inspect(in.file, func(n ast.Node) bool {
		c, ok := n.(*ast.CallExpr)
		if !ok || typ != "" {
			return true
		}
		for i, a := range c.Args {
			id, ok := a.(*ast.Ident)
			if !ok || id.Name != name {
				continue
			}
			se, ok := c.Fun.(*ast.SelectorExpr)
			if !ok {
				continue
			}
			pk, ok := se.X.(*ast.Ident)
			if !ok {
				continue
			}
			dir := in.importDir(pk.Name)
			if dir == "" {
				continue
			}
			typ = paramType(dir, se.Sel.Name, i)
		}
		return true
	})
	switch typ {
	case "int", "int64", "int32", "uint", "uint64", "uint32":
		return typ
	}
	return ""
}

func (in *instr) importDir(pkgName string) string {
	for _, im := range in.file.Imports {
		p, _ := strconv.Unquote(im.Path.Value)
		n := filepath.Base(p)
		if im.Name != nil {
			n = im.Name.Name
		}
		if n == pkgName && strings.HasPrefix(p, "github.com/wader/fq/") {
			return filepath.Join(in.repo, strings.TrimPrefix(p, "github.com/wader/fq/"))
		}
	}
	return ""
}

func paramType(dir, fn string, idx int) string {
	fset := token.NewFileSet()
	pkgs, err := parser.ParseDir(fset, dir, func(fi os.FileInfo) bool { return !strings.HasSuffix(fi.Name(), "_test.go") }, 0)
	if err != nil {
		return ""
	}
	for _, p := range pkgs {
		for _, f := range p.Files {
			for _, d := range f.Decls {
				fd, ok := d.(*ast.FuncDecl)
				if !ok || fd.Recv != nil || fd.Name.Name != fn {
					continue
				}
				i := 0
				for _, fl := range fd.Type.Params.List {
					n := len(fl.Names)
					if n == 0 {
						n = 1
					}
					if idx < i+n {
						if id, ok := fl.Type.(*ast.Ident); ok {
							return id.Name
						}
						return ""
					}
					i += n
				}
			}
		}
	}
	return ""
}

func (in *instr) goStmt(s *ast.GoStmt) ast.Stmt {
	site := intLit(in.site(s.Pos(), "go"))
	call := s.Call
	if fl, ok := call.Fun.(*ast.FuncLit); ok && len(call.Args) == 0 {
		return &ast.ExprStmt{X: simCall("Go", site, in.expr(fl))}
	}
	blk := &ast.BlockStmt{}
	fnName := in.tmp("f")
	blk.List = append(blk.List, &ast.AssignStmt{Lhs: []ast.Expr{ident(fnName)}, Tok: token.DEFINE, Rhs: []ast.Expr{in.expr(call.Fun)}})
	var args []ast.Expr
	for _, a := range call.Args {
		an := in.tmp("a")
		blk.List = append(blk.List, &ast.AssignStmt{Lhs: []ast.Expr{ident(an)}, Tok: token.DEFINE, Rhs: []ast.Expr{in.expr(a)}})
		args = append(args, ident(an))
	}
	inner := &ast.CallExpr{Fun: ident(fnName), Args: args, Ellipsis: call.Ellipsis}
	if call.Ellipsis.IsValid() {
		inner.Ellipsis = 1
	}
	lit := &ast.FuncLit{Type: &ast.FuncType{Params: &ast.FieldList{}}, Body: &ast.BlockStmt{List: []ast.Stmt{&ast.ExprStmt{X: inner}}}}
	blk.List = append(blk.List, &ast.ExprStmt{X: simCall("Go", site, lit)})
	return blk
}

// lockCall rewrites X.Lock() / X.RLock() on addressable-looking receivers.
func (in *instr) lockCall(e ast.Expr) ast.Expr {
	c, ok := e.(*ast.CallExpr)
	if !ok || len(c.Args) != 0 {
		return nil
	}
	se, ok := c.Fun.(*ast.SelectorExpr)
	if !ok || (se.Sel.Name != "Lock" && se.Sel.Name != "RLock") {
		return nil
	}
	if !addressable(se.X) {
		in.warn(e.Pos(), "Lock on a non-addressable receiver left native")
		return nil
	}
	return simCall(se.Sel.Name, intLit(in.site(e.Pos(), "lock")), &ast.UnaryExpr{Op: token.AND, X: se.X})
}

func addressable(e ast.Expr) bool {
	switch x := e.(type) {
	case *ast.Ident:
		return true
	case *ast.SelectorExpr:
		return addressable(x.X)
	case *ast.ParenExpr:
		return addressable(x.X)
	case *ast.StarExpr:
		return true
	case *ast.IndexExpr:
		return addressable(x.X)
	}
	return false
}

func (in *instr) selectStmt(s *ast.SelectStmt, label *ast.Ident) ast.Stmt {
	site := in.site(s.Pos(), "select")
	blk := &ast.BlockStmt{}
	var caseVars []ast.Expr
	sw := &ast.SwitchStmt{Body: &ast.BlockStmt{}}
	hasDefault := false
	idx := 0
	for _, c := range s.Body.List {
		cc := c.(*ast.CommClause)
		if cc.Comm == nil {
			hasDefault = true
			sw.Body.List = append(sw.Body.List, &ast.CaseClause{Body: in.list(cc.Body)})
			continue
		}
		cv := in.tmp("c")
		var pre []ast.Stmt
		switch cm := cc.Comm.(type) {
		case *ast.SendStmt:
			blk.List = append(blk.List, &ast.AssignStmt{Lhs: []ast.Expr{ident(cv)}, Tok: token.DEFINE, Rhs: []ast.Expr{simCall("SendOf", in.expr(cm.Chan), in.expr(cm.Value))}})
		case *ast.ExprStmt:
			u := unparen(cm.X).(*ast.UnaryExpr)
			blk.List = append(blk.List, &ast.AssignStmt{Lhs: []ast.Expr{ident(cv)}, Tok: token.DEFINE, Rhs: []ast.Expr{simCall("RecvOf", in.expr(u.X))}})
		case *ast.AssignStmt:
			u := unparen(cm.Rhs[0]).(*ast.UnaryExpr)
			blk.List = append(blk.List, &ast.AssignStmt{Lhs: []ast.Expr{ident(cv)}, Tok: token.DEFINE, Rhs: []ast.Expr{simCall("RecvOf", in.expr(u.X))}})
			rhs := []ast.Expr{&ast.SelectorExpr{X: ident(cv), Sel: ident("V")}}
			if len(cm.Lhs) == 2 {
				rhs = append(rhs, &ast.SelectorExpr{X: ident(cv), Sel: ident("OK")})
			}
			pre = append(pre, &ast.AssignStmt{Lhs: cm.Lhs, Tok: cm.Tok, Rhs: rhs})
		}
		caseVars = append(caseVars, ident(cv))
		body := append(pre, in.list(cc.Body)...)
		sw.Body.List = append(sw.Body.List, &ast.CaseClause{List: []ast.Expr{intLit(idx)}, Body: body})
		idx++
	}
	if !hasDefault {
		sw.Body.List = append(sw.Body.List, &ast.CaseClause{Body: []ast.Stmt{&ast.ExprStmt{X: &ast.CallExpr{Fun: ident("panic"), Args: []ast.Expr{&ast.BasicLit{Kind: token.STRING, Value: `"simrt: select returned no case"`}}}}}})
	}
	hd := "false"
	if hasDefault {
		hd = "true"
	}
	args := append([]ast.Expr{intLit(site), ident(hd)}, caseVars...)
	sw.Tag = simCall("Select", args...)
	if label != nil {
		blk.List = append(blk.List, &ast.LabeledStmt{Label: label, Stmt: sw})
	} else {
		blk.List = append(blk.List, sw)
	}
	return blk
}

func unparen(e ast.Expr) ast.Expr {
	for {
		p, ok := e.(*ast.ParenExpr)
		if !ok {
			return e
		}
		e = p.X
	}
}

func (in *instr) exprs(l []ast.Expr) []ast.Expr {
	if l == nil {
		return nil
	}
	out := make([]ast.Expr, len(l))
	for i, e := range l {
		out[i] = in.expr(e)
	}
	return out
}

func (in *instr) expr(e ast.Expr) ast.Expr {
	switch x := e.(type) {
	case nil:
		return nil
	case *ast.FuncLit:
		n := *x
		n.Body = in.block(x.Body)
		return &n
	case *ast.UnaryExpr:
		if x.Op == token.ARROW {
			return simCall("Recv", intLit(in.site(x.Pos(), "recv")), in.expr(x.X))
		}
		n := *x
		n.X = in.expr(x.X)
		return &n
	case *ast.CallExpr:
		if isPkgCall(x, "time", "Now") && len(x.Args) == 0 {
			in.site(x.Pos(), "clock")
			return simCall("Now")
		}
		n := *x
		n.Fun = in.expr(x.Fun)
		n.Args = in.exprs(x.Args)
		return &n
	case *ast.BinaryExpr:
		n := *x
		n.X = in.expr(x.X)
		n.Y = in.expr(x.Y)
		return &n
	case *ast.ParenExpr:
		n := *x
		n.X = in.expr(x.X)
		return &n
	case *ast.SelectorExpr:
		n := *x
		n.X = in.expr(x.X)
		return &n
	case *ast.IndexExpr:
		n := *x
		n.X = in.expr(x.X)
		n.Index = in.expr(x.Index)
		return &n
	case *ast.SliceExpr:
		n := *x
		n.X = in.expr(x.X)
		n.Low = in.expr(x.Low)
		n.High = in.expr(x.High)
		n.Max = in.expr(x.Max)
		return &n
	case *ast.StarExpr:
		n := *x
		n.X = in.expr(x.X)
		return &n
	case *ast.TypeAssertExpr:
		n := *x
		n.X = in.expr(x.X)
		return &n
	case *ast.KeyValueExpr:
		n := *x
		n.Value = in.expr(x.Value)
		return &n
	case *ast.CompositeLit:
		n := *x
		n.Elts = in.exprs(x.Elts)
		return &n
	}
	return e
}
