module github.com/wader/fq/zzverif

go 1.23.0

require (
	github.com/anishathalye/porcupine v1.3.0
	github.com/wader/fq v0.0.0
)

replace github.com/wader/fq => /repo
