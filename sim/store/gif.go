package store

import (
	"bytes"
	"compress/lzw"
	"fmt"
	"image"
	"image/color"
	"image/gif"
	"io"
)

// GIFFrame is one image block as it was given to the encoder.
type GIFFrame struct {
	Left, Top, W, H int
	Pix             []byte    // colour indices, row major
	Local           [][3]byte // local colour table as given (nil = the global one is used)
	LocalPadded     int       // number of entries the stored table has (power of two)
	Transparent     int       // index of the transparent entry, -1 = none
	Delay           int
	Disposal        int
	HasGCE          bool // a graphic control extension precedes the image
	LitWidth        int
}

type GIFTruth struct {
	Width, Height int
	Global        [][3]byte
	GlobalPadded  int
	Background    int
	LoopCount     int  // as given to the encoder
	HasLoopExt    bool // NETSCAPE2.0 application extension expected
	Frames        []GIFFrame
	HeaderEnd     int        // end of the logical screen descriptor and global colour table
	Blocks        []GIFBlock // the blocks between that and the trailer
}

func pow2ceil(n int) int {
	p := 2
	for p < n {
		p *= 2
	}
	return p
}

// WriteGIF stores 1..4 frames with image/gif.EncodeAll: a global colour
// table, frames that use it or bring a local one (optionally with a
// transparent entry), sub-rectangles, delays, disposal methods, loop count.
func WriteGIF(g Gen) *File {
	f := &File{Format: "gif", Name: "f.gif", GIF: &GIFTruth{}}
	gt := f.GIF
	switch g.Intn(6) {
	case 0:
		gt.Width, gt.Height = 1, 1
	case 1:
		gt.Width, gt.Height = g.Range(100, 300), g.Range(50, 120) // several data sub-blocks
	default:
		gt.Width, gt.Height = g.Range(1, 40), g.Range(1, 40)
	}
	p := newPrng(g)
	mkpal := func(n int, transparent int) (color.Palette, [][3]byte) {
		pal := make(color.Palette, n)
		var tab [][3]byte
		for i := range pal {
			c := [3]byte{byte(p.next()), byte(p.next()), byte(p.next())}
			if i == transparent {
				// the encoder stores the premultiplied (zero) colour of a transparent entry
				c = [3]byte{}
				pal[i] = color.RGBA{}
			} else {
				pal[i] = color.RGBA{c[0], c[1], c[2], 255}
			}
			tab = append(tab, c)
		}
		return pal, tab
	}
	ng := []int{1, 2, 3, 4, 5, 16, 100, 256}[g.Intn(8)]
	gpal, gtab := mkpal(ng, -1)
	gt.Global, gt.GlobalPadded = gtab, pow2ceil(ng)
	gt.Background = g.Intn(ng)
	nf := 1
	if g.Bool(1, 2) {
		nf = g.Range(2, 4)
	}
	gt.LoopCount = []int{0, -1, 3, 65535}[g.Intn(4)]
	gt.HasLoopExt = nf > 1 && gt.LoopCount >= 0
	gg := &gif.GIF{LoopCount: gt.LoopCount, BackgroundIndex: byte(gt.Background),
		Config: image.Config{ColorModel: gpal, Width: gt.Width, Height: gt.Height}}
	style := g.Intn(3)
	for i := 0; i < nf; i++ {
		fr := GIFFrame{Transparent: -1}
		if i == 0 || g.Bool(1, 2) {
			fr.W, fr.H = gt.Width, gt.Height
		} else {
			fr.W, fr.H = g.Range(1, gt.Width), g.Range(1, gt.Height)
			fr.Left, fr.Top = g.Intn(gt.Width-fr.W+1), g.Intn(gt.Height-fr.H+1)
		}
		pal, ncol := gpal, ng
		if g.Bool(1, 6) {
			ncol = []int{2, 3, 8, 200}[g.Intn(4)]
			if g.Bool(1, 2) {
				fr.Transparent = g.Intn(ncol)
			}
			pal, fr.Local = mkpal(ncol, fr.Transparent)
			fr.LocalPadded = pow2ceil(ncol)
		}
		if g.Bool(1, 2) {
			fr.Delay = g.Range(1, 500)
		}
		fr.Disposal = []int{0, 0, 1, 2, 3}[g.Intn(5)]
		fr.HasGCE = fr.Delay > 0 || fr.Disposal != 0 || fr.Transparent >= 0
		fr.LitWidth = 2
		for 1<<uint(fr.LitWidth) < ncol {
			fr.LitWidth++
		}
		pm := image.NewPaletted(image.Rect(fr.Left, fr.Top, fr.Left+fr.W, fr.Top+fr.H), pal)
		fr.Pix = make([]byte, fr.W*fr.H)
		for j := range fr.Pix {
			switch style {
			case 0:
				fr.Pix[j] = byte(p.next() % uint64(ncol))
			case 1:
				fr.Pix[j] = byte(i % ncol)
			default:
				fr.Pix[j] = byte((j%fr.W + j/fr.W) % ncol)
			}
		}
		copy(pm.Pix, fr.Pix)
		gg.Image = append(gg.Image, pm)
		gg.Delay = append(gg.Delay, fr.Delay)
		gg.Disposal = append(gg.Disposal, byte(fr.Disposal))
		gt.Frames = append(gt.Frames, fr)
	}
	var buf bytes.Buffer
	if err := gif.EncodeAll(&buf, gg); err != nil {
		f.fail("gif encode: %v", err)
		return f
	}
	f.Data = buf.Bytes()
	f.region(0, len(f.Data), -1, KMeta, "") // GIF stores no checksums
	// independent read back
	back, err := gif.DecodeAll(bytes.NewReader(f.Data))
	if err != nil || len(back.Image) != nf {
		f.fail("gif read back: %v", err)
		return f
	}
	for i, im := range back.Image {
		fr := &gt.Frames[i]
		if im.Bounds() != image.Rect(fr.Left, fr.Top, fr.Left+fr.W, fr.Top+fr.H) || !bytes.Equal(im.Pix[:fr.W*fr.H], fr.Pix) && im.Stride == fr.W {
			f.fail("gif read back: frame %d differs", i)
		}
	}
	f.Note = fmt.Sprintf("gif %dx%d %d frames", gt.Width, gt.Height, nf)
	// block layout, by walking the stored bytes as GIF89a lays them out
	d := f.Data
	o := 13 + 3*gt.GlobalPadded
	gt.HeaderEnd = o
	frame := 0
	skipSub := func() bool {
		for o < len(d) {
			n := int(d[o])
			o += 1 + n
			if n == 0 {
				return true
			}
		}
		return false
	}
	for o < len(d) && d[o] != 0x3b {
		b := GIFBlock{Start: o, Frame: frame}
		switch d[o] {
		case 0x21:
			switch d[o+1] {
			case 0xff:
				b.Kind, b.Frame = "loop", -1
			case 0xf9:
				b.Kind = "gce"
			default:
				f.fail("gif layout: extension %#x at %d", d[o+1], o)
				return f
			}
			o += 2
		case 0x2c:
			b.Kind = "image"
			if d[o+9]&0x80 != 0 {
				o += 3 * (2 << (d[o+9] & 7))
			}
			o += 11
			frame++
		default:
			f.fail("gif layout: block %#x at %d", d[o], o)
			return f
		}
		if !skipSub() {
			f.fail("gif layout: sub-blocks run past the end")
			return f
		}
		b.End = o
		gt.Blocks = append(gt.Blocks, b)
	}
	if o != len(d)-1 || frame != nf {
		f.fail("gif layout: trailer at %d of %d, %d frames", o, len(d), frame)
	}
	return f
}

// GIFBlock is one extension or image block of the stored file.
type GIFBlock struct {
	Kind       string // loop | gce | image
	Frame      int    // frame the block belongs to (-1 = none)
	Start, End int
}

// GIFUnLZW decodes the concatenated data sub-blocks of one image.
func GIFUnLZW(data []byte, litWidth int, n int) ([]byte, error) {
	if litWidth < 2 || litWidth > 8 {
		return nil, fmt.Errorf("code size %d", litWidth)
	}
	r := lzw.NewReader(bytes.NewReader(data), lzw.LSB, litWidth)
	defer r.Close()
	out := make([]byte, n)
	if _, err := io.ReadFull(r, out); err != nil {
		return nil, err
	}
	return out, nil
}
