// simw is the simulation worker: it executes a range of run indices of one
// harness configuration, shrinks what it finds and writes an aggregate.
package main

import (
	"encoding/binary"
	"encoding/json"
	"flag"
	"fmt"
	"hash/fnv"
	"os"
	"runtime"
	"runtime/debug"
	"sort"
	"time"

	"github.com/wader/fq/internal/simrt"
	"github.com/wader/fq/zzverif/sim/core"
	_ "github.com/wader/fq/zzverif/sim/harness"
)

type aggregate struct {
	Harness      string         `json:"harness"`
	Config       string         `json:"config"`
	Race         bool           `json:"race"`
	From         int            `json:"from"`
	To           int            `json:"to"`
	Runs         int            `json:"runs"`
	Nontrivial   int            `json:"nontrivial"`
	Faults       map[string]int `json:"faults"`
	Probes       map[string]int `json:"probes"`
	Extra        map[string]int `json:"extra"`
	Steps        int64          `json:"steps"`
	SimNanos     int64          `json:"sim_nanos"`
	Switches     int64          `json:"switches"`
	Pairs        []uint32       `json:"pairs"`
	Inconclusive []string       `json:"inconclusive"`
	NInconcl     int            `json:"n_inconclusive"`
	Samples      []any          `json:"samples"`
	Violations   []core.Replay  `json:"violations"`
	VClassCount  map[string]int `json:"violation_class_count"`
	OtherProps   map[string]int `json:"other_property_violations"`
	WallS        float64        `json:"wall_s"`
	TimedOut     bool           `json:"timed_out"`
	NextIdx      int            `json:"next_idx"`
}

func hstr(s string) uint64 {
	h := fnv.New64a()
	h.Write([]byte(s))
	return h.Sum64()
}

func main() {
	harness := flag.String("harness", "", "harness name")
	config := flag.String("config", "default", "harness configuration")
	tier := flag.String("tier", "quick", "quick|thorough")
	seed := flag.Uint64("seed", 1, "VERIF_SEED")
	from := flag.Int("from", 0, "first run index")
	to := flag.Int("to", 1, "one past the last run index")
	stride := flag.Int("stride", 1, "run index stride")
	out := flag.String("out", "", "output prefix")
	prop := flag.String("prop", "", "property whose violations are reported")
	race := flag.Bool("race", false, "race mode (binary built with -race)")
	replay := flag.String("replay", "", "replay file")
	maxSec := flag.Float64("maxsec", 0, "stop after this many seconds")
	shrinkSec := flag.Float64("shrinksec", 60, "shrink time cap per violation")
	marker := flag.String("marker", "", "file that receives the current run index")
	list := flag.Bool("list", false, "list harnesses")
	verbose := flag.Bool("v", false, "verbose")
	det := flag.String("det", "", "write one line per run (index, fingerprint, verdicts) for the determinism self-test")
	memGB := flag.Int("memgb", 6, "heap limit in GiB (0 = none)")
	flag.Parse()
	debug.SetGCPercent(200)
	if *memGB > 0 {
		// memory watchdog: a decode that allocates without bound (corrupt length
		// fields) ends this worker with a distinct status instead of taking the
		// machine down; the controller counts the run as resource-inconclusive
		go func() {
			var ms runtime.MemStats
			for {
				time.Sleep(250 * time.Millisecond)
				runtime.ReadMemStats(&ms)
				if ms.HeapAlloc > uint64(*memGB)<<30 {
					fmt.Fprintf(os.Stderr, "SIMW-RESOURCE: heap %d MiB exceeds the %d GiB limit\n", ms.HeapAlloc>>20, *memGB)
					buf := make([]byte, 1<<18)
					n := runtime.Stack(buf, true)
					os.Stderr.Write(buf[:n])
					os.Exit(98)
				}
			}
		}()
	}

	if *list {
		for _, n := range core.Names() {
			fmt.Println(n)
		}
		return
	}
	if *replay != "" {
		os.Exit(doReplay(*replay, *race, *verbose))
	}
	h := core.Get(*harness)
	if h == nil {
		fmt.Fprintln(os.Stderr, "unknown harness", *harness)
		os.Exit(simrt.InfraExit)
	}
	fmt.Printf("SEED harness=%s config=%s seed=%d from=%d to=%d stride=%d race=%v\n", *harness, *config, *seed, *from, *to, *stride, *race)
	agg := &aggregate{Harness: *harness, Config: *config, Race: *race, From: *from, To: *to,
		Faults: map[string]int{}, Probes: map[string]int{}, Extra: map[string]int{}, VClassCount: map[string]int{}, OtherProps: map[string]int{}}
	pairs := map[uint32]struct{}{}
	var fpf *os.File
	if *out != "" {
		var err error
		fpf, err = os.Create(*out + ".fp")
		if err != nil {
			fmt.Fprintln(os.Stderr, err)
			os.Exit(simrt.InfraExit)
		}
	}
	var mf *os.File
	if *marker != "" {
		mf, _ = os.Create(*marker)
	}
	var detf *os.File
	if *det != "" {
		detf, _ = os.Create(*det)
		defer detf.Close()
	}
	start := time.Now()
	lastCkpt := start
	writeAgg := func() {
		agg.Pairs = agg.Pairs[:0]
		for p := range pairs {
			agg.Pairs = append(agg.Pairs, p)
		}
		sort.Slice(agg.Pairs, func(i, j int) bool { return agg.Pairs[i] < agg.Pairs[j] })
		agg.WallS = time.Since(start).Seconds()
		b, _ := json.Marshal(agg)
		if *out != "" {
			tmp := *out + ".json.tmp"
			if err := os.WriteFile(tmp, b, 0o644); err != nil {
				fmt.Fprintln(os.Stderr, err)
				os.Exit(simrt.InfraExit)
			}
			os.Rename(tmp, *out+".json")
		} else {
			os.Stdout.Write(b)
			fmt.Println()
		}
	}
	base := simrt.Mix(*seed, hstr(*harness), hstr(*config))
	fpbuf := make([]byte, 0, 1<<16)
	for idx := *from; idx < *to; idx += *stride {
		if *maxSec > 0 && time.Since(start).Seconds() > *maxSec {
			agg.TimedOut = true
			break
		}
		if mf != nil {
			var b [8]byte
			binary.LittleEndian.PutUint64(b[:], uint64(idx))
			mf.WriteAt(b[:], 0)
		}
		rs := simrt.Mix(base, uint64(idx))
		t := simrt.NewTape(rs)
		rc := &core.RunCtx{T: t, Tier: *tier, Config: *config, Idx: idx, Seed: *seed, Race: *race, Prop: *prop}
		res := h.Run(rc)
		recorded := t.Recorded() // before any shrinking reuses the tape buffer
		agg.Runs++
		agg.NextIdx = idx + *stride
		if detf != nil {
			var vc []string
			for _, v := range res.Violations {
				vc = append(vc, v.Class())
			}
			fmt.Fprintf(detf, "%d %016x %d %v %s\n", idx, res.Fingerprint, res.Steps, vc, res.Inconclusive)
		}
		if *out != "" && time.Since(lastCkpt) > 2*time.Second {
			if fpf != nil {
				fpf.Write(fpbuf)
				fpbuf = fpbuf[:0]
			}
			writeAgg()
			lastCkpt = time.Now()
		}
		if res.Nontrivial {
			agg.Nontrivial++
			fpbuf = binary.LittleEndian.AppendUint64(fpbuf, res.Fingerprint)
			if len(fpbuf) >= 1<<16-8 && fpf != nil {
				fpf.Write(fpbuf)
				fpbuf = fpbuf[:0]
			}
		}
		for k, v := range res.Faults {
			agg.Faults[k] += v
		}
		for k, v := range res.Probes {
			agg.Probes[k] += v
		}
		for k, v := range res.Extra {
			agg.Extra[k] += v
		}
		agg.Steps += int64(res.Steps)
		agg.SimNanos += res.SimNanos
		agg.Switches += int64(res.Switches)
		for _, p := range res.Pairs {
			pairs[p] = struct{}{}
		}
		if res.Inconclusive != "" {
			agg.NInconcl++
			if len(agg.Inconclusive) < 20 {
				agg.Inconclusive = append(agg.Inconclusive, fmt.Sprintf("run %d: %s", idx, res.Inconclusive))
			}
		}
		if len(agg.Samples) < 3 && res.Sample != nil && res.Nontrivial {
			agg.Samples = append(agg.Samples, res.Sample)
		}
		for _, v := range res.Violations {
			if *prop != "" && v.Property != *prop {
				agg.OtherProps[v.Property]++
				continue
			}
			cl := v.Class()
			agg.VClassCount[cl]++
			if agg.VClassCount[cl] > 1 || len(agg.Violations) >= 40 {
				continue
			}
			rp := core.Replay{Property: v.Property, Harness: *harness, Config: *config, Tier: *tier, Race: *race, Seed: *seed, Idx: idx,
				Tape: recorded, Violation: v, Sample: res.Sample, Trace: res.Trace, HistFrom: *from, HistStride: *stride}
			agg.Violations = append(agg.Violations, rp)
			if !*race {
				// checkpoint first: a candidate tape that hangs or exhausts the heap kills this
				// process (watchdog), which must not lose the violation already seen
				writeAgg()
				shrink(h, rc, &agg.Violations[len(agg.Violations)-1], *shrinkSec)
			}
			if *verbose {
				fmt.Printf("violation run=%d %s: %s\n", idx, cl, v.Detail)
			}
		}
	}
	if fpf != nil {
		fpf.Write(fpbuf)
		fpf.Close()
	}
	writeAgg()
}

// runTape executes one run from a recorded tape and returns the violation of
// the wanted class, if it reproduces.
func runTape(h core.Harness, rc *core.RunCtx, tape []int32, class string) (*core.RunResult, *core.Violation, []int32) {
	t := simrt.NewReplayTape(tape)
	nrc := *rc
	nrc.T = t
	nrc.Replay = true
	res := h.Run(&nrc)
	for i := range res.Violations {
		if res.Violations[i].Class() == class {
			return res, &res.Violations[i], t.Recorded()
		}
	}
	return res, nil, nil
}

// shrink minimises rp.Tape while the same violation class reproduces: ddmin
// over contiguous chunks (deleting and zeroing), then per-entry reduction.
func shrink(h core.Harness, rc *core.RunCtx, rp *core.Replay, capSec float64) {
	class := rp.Violation.Class()
	deadline := time.Now().Add(time.Duration(capSec * float64(time.Second)))
	best := rp.Tape
	tries, accepted := 0, 0
	try := func(c []int32) bool {
		if time.Now().After(deadline) {
			return false
		}
		tries++
		res, v, used := runTape(h, rc, c, class)
		if v == nil {
			return false
		}
		// the tape actually consumed may be shorter than the candidate
		if len(used) < len(c) {
			c = used
		}
		// trailing zeros are implicit
		for len(c) > 0 && c[len(c)-1] == 0 {
			c = c[:len(c)-1]
		}
		best = append([]int32(nil), c...)
		rp.Violation = *v
		rp.Sample = res.Sample
		rp.Trace = res.Trace
		accepted++
		return true
	}
	// first make sure it reproduces at all
	if !try(best) {
		rp.Shrunk = "not reproducible in-process"
		return
	}
	for chunk := len(best) / 2; chunk >= 1; chunk /= 2 {
		for i := 0; i+chunk <= len(best); {
			// delete the chunk
			c := append(append([]int32(nil), best[:i]...), best[i+chunk:]...)
			if try(c) {
				continue
			}
			// zero the chunk
			allZero := true
			for _, x := range best[i : i+chunk] {
				if x != 0 {
					allZero = false
				}
			}
			if !allZero {
				c = append([]int32(nil), best...)
				for j := i; j < i+chunk && j < len(c); j++ {
					c[j] = 0
				}
				if try(c) {
					i += chunk
					continue
				}
			}
			i += chunk
		}
		if time.Now().After(deadline) {
			break
		}
	}
	// per-entry: halve towards zero
	for pass := 0; pass < 2; pass++ {
		for i := 0; i < len(best); i++ {
			for i < len(best) && best[i] > 0 {
				c := append([]int32(nil), best...)
				c[i] = best[i] / 2
				if !try(c) {
					break
				}
			}
			if time.Now().After(deadline) {
				break
			}
		}
	}
	rp.Tape = best
	rp.Shrunk = fmt.Sprintf("ddmin: %d candidates, %d accepted", tries, accepted)
}

func doReplay(path string, race bool, verbose bool) int {
	b, err := os.ReadFile(path)
	if err != nil {
		fmt.Fprintln(os.Stderr, err)
		return simrt.InfraExit
	}
	var rp core.Replay
	if err := json.Unmarshal(b, &rp); err != nil {
		fmt.Fprintln(os.Stderr, err)
		return simrt.InfraExit
	}
	h := core.Get(rp.Harness)
	if h == nil {
		fmt.Fprintln(os.Stderr, "unknown harness", rp.Harness)
		return simrt.InfraExit
	}
	fmt.Printf("SEED replay harness=%s config=%s seed=%d run=%d tape_len=%d\n", rp.Harness, rp.Config, rp.Seed, rp.Idx, len(rp.Tape))
	rc := &core.RunCtx{Tier: rp.Tier, Config: rp.Config, Idx: rp.Idx, Seed: rp.Seed, Race: race, Replay: true, Prop: rp.Property}
	res, v, _ := runTape(h, rc, rp.Tape, rp.Violation.Class())
	if verbose {
		for _, l := range res.Trace {
			fmt.Println("  ", l)
		}
	}
	if v == nil && rp.WithHistory && rp.HistStride > 0 && rp.HistFrom < rp.Idx {
		// re-execute, from their seeds, the runs the original worker process had
		// executed before the failing one, then the recorded run
		base := simrt.Mix(rp.Seed, hstr(rp.Harness), hstr(rp.Config))
		n := 0
		for idx := rp.HistFrom; idx < rp.Idx; idx += rp.HistStride {
			hrc := &core.RunCtx{T: simrt.NewTape(simrt.Mix(base, uint64(idx))), Tier: rp.Tier, Config: rp.Config, Idx: idx, Seed: rp.Seed, Race: race, Prop: rp.Property}
			h.Run(hrc)
			n++
		}
		fmt.Printf("history: re-executed the %d earlier runs of the worker process (indices %d, +%d, ... below %d)\n", n, rp.HistFrom, rp.HistStride, rp.Idx)
		res, v, _ = runTape(h, rc, rp.Tape, rp.Violation.Class())
	}
	if v == nil {
		fmt.Printf("NOT-REPRODUCED class=%s (got %d other violations)\n", rp.Violation.Class(), len(res.Violations))
		for _, o := range res.Violations {
			fmt.Printf("  other: %s: %s\n", o.Class(), o.Detail)
		}
		return 3
	}
	fmt.Printf("REPRODUCED property=%s oracle=%s key=%s\n  %s\n", v.Property, v.Oracle, v.Key, v.Detail)
	return 1
}
