package store

import (
	"archive/zip"
	"bytes"
	"compress/flate"
	"encoding/binary"
	"fmt"
	"hash/crc32"
	"io"
	"time"
)

// ZipMember is what one zip entry was given and where its parts lie.
type ZipMember struct {
	Name        string
	Comment     string // central directory file comment
	Method      uint16 // 0 store, 8 deflate
	Descriptor  bool   // written with a data descriptor (sizes and crc zero in the local header)
	IsDir       bool
	Modified    int64 // unix seconds, 0 = not set
	Payload     []byte
	PayloadKind string
	CRC32       uint32
	CSize       uint32
	USize       uint32
	ExtraLen    int
	// offsets
	LocalOff, DataOff, DataEnd, End int // End includes the descriptor
	CentralOff, CentralEnd          int
}

type ZipTruth struct {
	Members   []ZipMember
	Comment   string
	Level     int
	CDOff     int
	CDSize    int
	EOCDOff   int
	DosDates  []uint16
	DosTimes  []uint16
	ExtraMTim []bool
}

// WriteZip stores 0..6 entries with archive/zip: methods Store/Deflate, with
// data descriptors (CreateHeader) and without (CreateRaw with sizes and CRC set
// beforehand, compressed here with compress/flate), directories, comments.
func WriteZip(g Gen) *File {
	f := &File{Format: "zip", Name: "f.zip", Zip: &ZipTruth{}}
	zt := f.Zip
	n := memberCount(g)
	zt.Level = []int{flate.DefaultCompression, flate.BestSpeed, flate.BestCompression, flate.HuffmanOnly, 5}[g.Intn(5)]
	var buf bytes.Buffer
	zw := zip.NewWriter(&buf)
	zw.RegisterCompressor(zip.Deflate, func(w io.Writer) (io.WriteCloser, error) { return flate.NewWriter(w, zt.Level) })
	switch g.Intn(8) {
	case 0:
		zt.Comment = "archive comment"
	case 1:
		// longer than the 128 bytes some readers look back for the end record
		zt.Comment = string(bytes.Repeat([]byte("long comment "), g.Range(10, 30)))
	}
	for i := 0; i < n; i++ {
		m := ZipMember{}
		m.Name = Name(g, NameStyle(g))
		if g.Bool(1, 6) {
			m.Comment = "file comment " + pick(g, asciiStems)
		}
		if g.Bool(2, 3) {
			m.Modified = int64(1000000000 + g.Intn(700000000))
		}
		var mod time.Time
		if m.Modified != 0 {
			mod = time.Unix(m.Modified, 0).UTC()
		}
		if g.Bool(1, 10) {
			m.IsDir = true
			m.Name += "/"
			m.Payload = []byte{}
			fh := &zip.FileHeader{Name: m.Name, Comment: m.Comment, Modified: mod}
			if _, err := zw.CreateHeader(fh); err != nil {
				f.fail("zip dir: %v", err)
			}
			zt.Members = append(zt.Members, m)
			continue
		}
		m.Payload, m.PayloadKind = Payload(g)
		if g.Bool(1, 2) {
			m.Method = zip.Deflate
		}
		m.Descriptor = g.Bool(1, 2)
		m.CRC32 = crc32.ChecksumIEEE(m.Payload)
		m.USize = uint32(len(m.Payload))
		if m.Descriptor {
			fh := &zip.FileHeader{Name: m.Name, Comment: m.Comment, Method: m.Method, Modified: mod}
			w, err := zw.CreateHeader(fh)
			if err != nil {
				f.fail("zip CreateHeader: %v", err)
				break
			}
			w.Write(m.Payload)
		} else {
			comp := m.Payload
			if m.Method == zip.Deflate {
				var cb bytes.Buffer
				fw, _ := flate.NewWriter(&cb, zt.Level)
				fw.Write(m.Payload)
				fw.Close()
				comp = cb.Bytes()
			}
			// CreateRaw writes the header as given: the DOS date/time and the
			// extended timestamp extra field that CreateHeader derives from
			// Modified are filled in by hand here
			fh := &zip.FileHeader{Name: m.Name, Comment: m.Comment, Method: m.Method,
				CRC32: m.CRC32, CompressedSize64: uint64(len(comp)), UncompressedSize64: uint64(len(m.Payload))}
			if m.Modified != 0 {
				fh.ModifiedDate = uint16(mod.Day() + int(mod.Month())<<5 + (mod.Year()-1980)<<9)
				fh.ModifiedTime = uint16(mod.Second()/2 + mod.Minute()<<5 + mod.Hour()<<11)
				fh.Extra = binary.LittleEndian.AppendUint32([]byte{0x55, 0x54, 5, 0, 1}, uint32(m.Modified))
			}
			w, err := zw.CreateRaw(fh)
			if err != nil {
				f.fail("zip CreateRaw: %v", err)
				break
			}
			w.Write(comp)
		}
		zt.Members = append(zt.Members, m)
	}
	if zt.Comment != "" {
		zw.SetComment(zt.Comment)
	}
	if err := zw.Close(); err != nil {
		f.fail("zip close: %v", err)
	}
	f.Data = buf.Bytes()
	d := f.Data

	// Layout from an independent read-back (archive/zip's reader) cross-checked
	// against the sequential layout the writer must have produced.
	zr, err := zip.NewReader(bytes.NewReader(d), int64(len(d)))
	if err != nil {
		f.fail("zip read back: %v", err)
		return f
	}
	if len(zr.File) != len(zt.Members) {
		f.fail("zip read back: %d entries, wrote %d", len(zr.File), len(zt.Members))
		return f
	}
	off := 0
	for i := range zt.Members {
		m := &zt.Members[i]
		zf := zr.File[i]
		m.LocalOff = off
		if off+30 > len(d) || binary.LittleEndian.Uint32(d[off:]) != 0x04034b50 {
			f.fail("zip member %d: no local header at %d", i, off)
			return f
		}
		nl := int(binary.LittleEndian.Uint16(d[off+26:]))
		m.ExtraLen = int(binary.LittleEndian.Uint16(d[off+28:]))
		m.DataOff = off + 30 + nl + m.ExtraLen
		if do, err := zf.DataOffset(); err != nil || int(do) != m.DataOff || zf.Name != m.Name || nl != len(m.Name) {
			f.fail("zip member %d: data offset %d/%d name %q", i, do, m.DataOff, zf.Name)
			return f
		}
		m.CSize = uint32(zf.CompressedSize64)
		m.DataEnd = m.DataOff + int(m.CSize)
		m.End = m.DataEnd
		flags := binary.LittleEndian.Uint16(d[off+6:])
		if (flags&8 != 0) != m.Descriptor || zf.Method != m.Method || zf.CRC32 != m.CRC32 || uint32(zf.UncompressedSize64) != m.USize {
			f.fail("zip member %d: flags %#x method %d crc %#x differ from the model", i, flags, zf.Method, zf.CRC32)
			return f
		}
		if m.Descriptor {
			if binary.LittleEndian.Uint32(d[m.DataEnd:]) != 0x08074b50 {
				f.fail("zip member %d: no descriptor signature at %d", i, m.DataEnd)
				return f
			}
			m.End += 16
		}
		// independent read of the payload
		rc, err := zf.Open()
		if err == nil {
			got, err2 := io.ReadAll(rc)
			rc.Close()
			if err2 != nil || !bytes.Equal(got, m.Payload) {
				f.fail("zip member %d: read back differs (%v)", i, err2)
			}
		} else {
			f.fail("zip member %d: open: %v", i, err)
		}
		zt.DosDates = append(zt.DosDates, binary.LittleEndian.Uint16(d[off+12:]))
		zt.DosTimes = append(zt.DosTimes, binary.LittleEndian.Uint16(d[off+10:]))
		f.region(m.LocalOff, m.LocalOff+14, i, KHeader, "")
		if !m.Descriptor {
			f.region(m.LocalOff+14, m.LocalOff+18, i, KChecksum, "crc32")
		}
		f.region(m.LocalOff+18, m.DataOff, i, KHeader, "")
		f.region(m.DataOff, m.DataEnd, i, KPayload, "crc32")
		if m.Descriptor {
			f.region(m.DataEnd, m.DataEnd+4, i, KHeader, "")
			f.region(m.DataEnd+4, m.DataEnd+8, i, KChecksum, "crc32")
			f.region(m.DataEnd+8, m.End, i, KHeader, "")
		}
		off = m.End
	}
	zt.CDOff = off
	for i := range zt.Members {
		m := &zt.Members[i]
		if off+46 > len(d) || binary.LittleEndian.Uint32(d[off:]) != 0x02014b50 {
			f.fail("zip central %d: no header at %d", i, off)
			return f
		}
		m.CentralOff = off
		nl := int(binary.LittleEndian.Uint16(d[off+28:]))
		el := int(binary.LittleEndian.Uint16(d[off+30:]))
		cl := int(binary.LittleEndian.Uint16(d[off+32:]))
		if int(binary.LittleEndian.Uint32(d[off+42:])) != m.LocalOff {
			f.fail("zip central %d: local offset differs", i)
		}
		off += 46 + nl + el + cl
		m.CentralEnd = off
		f.region(m.CentralOff, m.CentralOff+16, i, KMeta, "")
		f.region(m.CentralOff+16, m.CentralOff+20, i, KChecksum, "crc32-central")
		f.region(m.CentralOff+20, m.CentralEnd, i, KMeta, "")
	}
	zt.CDSize = off - zt.CDOff
	zt.EOCDOff = off
	if off+22 > len(d) || binary.LittleEndian.Uint32(d[off:]) != 0x06054b50 || off+22+len(zt.Comment) != len(d) {
		f.fail("zip: no end record at %d (len %d)", off, len(d))
	}
	f.region(off, len(d), -1, KMeta, "")
	f.Note = fmt.Sprintf("zip %d members level %d", len(zt.Members), zt.Level)
	return f
}
