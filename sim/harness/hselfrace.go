package harness

import (
	"sync"

	"github.com/wader/fq/internal/simrt"
	"github.com/wader/fq/zzverif/sim/core"
)

// hselfrace is the self-test of the race mode (DESIGN §2.6, §7): two tasks that
// the simulator runs strictly one after the other share a slice. Config
// "planted": no synchronisation between them - the race detector must report
// it although the execution is serialised (the baton carries no happens-before
// edge). Config "synchronised": a mutex orders them - it must stay silent.

func init() { core.Register(&hselfrace{}) }

type hselfrace struct{}

func (*hselfrace) Name() string { return "hselfrace" }

const siteSelf = 60500

func init() { simrt.RegisterSite(siteSelf, "hselfrace") }

type selfShared struct {
	mu sync.Mutex
	s  []int
}

func (*hselfrace) Run(rc *core.RunCtx) *core.RunResult {
	res := core.NewResult()
	sim := simrt.New(rc.T, -1, 10000)
	defer sim.Close()
	sh := &selfShared{}
	locked := rc.Config == "synchronised"
	n := 0
	sim.Spawn("writer", false, func() {
		for i := 0; i < 4; i++ {
			simrt.Yield(siteSelf)
			if locked {
				sh.mu.Lock()
			}
			sh.s = append(sh.s, i)
			if locked {
				sh.mu.Unlock()
			}
		}
	})
	sim.Spawn("reader", false, func() {
		for i := 0; i < 4; i++ {
			simrt.Yield(siteSelf)
			if locked {
				sh.mu.Lock()
			}
			n += len(sh.s)
			if locked {
				sh.mu.Unlock()
			}
		}
	})
	sim.Run()
	st := sim.Stats()
	res.Fingerprint = st.Fingerprint
	res.Steps = st.Steps
	res.Nontrivial = true
	res.Extra["len_sum"] = n
	return res
}
