package harness

import (
	"fmt"
	"strings"

	"github.com/wader/fq/zzverif/sim/core"
	"github.com/wader/fq/zzverif/sim/corpus"
	"github.com/wader/fq/zzverif/sim/simos"
)

// H-SYS tier of C06 (DESIGN §3 C03/C04/C06): the whole CLI on a stored file that
// suffered an at-rest fault (truncation, bit-rot, boundary-byte overwrite) and
// on a disk that may fail (EIO per call). Oracle: Main returns - no panic out of
// it, no deadlock -, the exit status is one of the documented {0,2,3,4,5} and a
// non-zero status comes with something on standard error.

func init() { core.Register(&hcrash{}) }

type hcrash struct{}

func (*hcrash) Name() string { return "hcrash" }

var crashProgs = []string{"dv", ".", "tovalue | tojson | length", "[.. | select(_is_scalar?) | tovalue?] | length", "tobytes | length", "torepr? | tojson | length", "._error // \"ok\" | tojson"}

func (*hcrash) Run(rc *core.RunCtx) *core.RunResult {
	res := core.NewResult()
	t := rc.T
	samples := corpus.MaxSize(16 * 1024)
	if len(samples) == 0 {
		res.Violate("HARNESS", "no-corpus", "hcrash", "no samples harvested")
		return res
	}
	s := samples[t.Intn(len(samples))]
	orig := corpus.Data(s)
	data := append([]byte(nil), orig...)
	fault := "none"
	switch t.Intn(6) {
	case 0, 1:
		if len(data) > 0 {
			n := t.Intn(len(data) + 1)
			data = data[:n]
			fault = fmt.Sprintf("truncated to %d of %d bytes", n, len(orig))
			res.Faults["truncation"]++
		}
	case 2, 3:
		if len(data) > 0 {
			o := t.Intn(min(len(data), 96))
			if t.Intn(2) == 0 {
				o = t.Intn(len(data))
			}
			data[o] = boundaryBytes[t.Intn(len(boundaryBytes))]
			fault = fmt.Sprintf("byte %d overwritten with 0x%02x", o, data[o])
			res.Faults["byte_overwrite"]++
		}
	case 4:
		if len(data) > 0 {
			o := t.Intn(len(data))
			b := uint(t.Intn(8))
			data[o] ^= 1 << b
			fault = fmt.Sprintf("bit-rot at %d.%d", o, b)
			res.Faults["bitrot"]++
		}
	}
	o := simos.New(t)
	o.Disk.Benign = true
	o.Disk.Errors = t.Intn(3) == 0
	o.AddFile("sample", simos.Regular, data)
	args := []string{"fq"}
	format := s.Format
	switch t.Intn(6) {
	case 0:
		format = "" // probe
	case 1:
		g := decGroupNames()
		format = g[t.Intn(len(g))]
	}
	if format != "" {
		args = append(args, "-d", format)
	}
	for _, kv := range s.Opts {
		args = append(args, "-o", kv)
	}
	if t.Intn(4) == 0 {
		args = append(args, "-o", "force=true")
	}
	prog := crashProgs[t.Intn(len(crashProgs))]
	args = append(args, prog, "sample")
	o.ArgsV = args
	knobs := map[string]int{"cacheReadAheadSize": aheadKnobs[t.Intn(len(aheadKnobs))], "progressPrecision": precKnobs[t.Intn(len(precKnobs))]}
	run := runFQ(t, o, fqOpts{Policy: -1, Knobs: knobs})
	run.account(res, o)
	res.Fingerprint = fnv64(fnv64(0, []byte(strings.Join(args, " ")+fault)), data[:min(len(data), 64)])
	res.Nontrivial = true
	what := fmt.Sprintf("fq %s (%s, %s, disk errors %v)", strings.Join(args[1:], " "), s.Rel, fault, o.Disk.Errors)
	res.Sample = map[string]any{"argv": args, "sample": s.Rel, "fault": fault, "exit": run.Res.Exit, "disk_errors": o.Disk.Errors}
	if !run.abnormal(res, "C06", what) {
		return res
	}
	res.Probes[fmt.Sprintf("exit_%d", run.Res.Exit)]++
	switch run.Res.Exit {
	case 0, 2, 3, 4, 5:
	default:
		res.Violate("C06", "undocumented-exit-status", fmt.Sprintf("exit-%d", run.Res.Exit), fmt.Sprintf("%s: exit status %d is not one of 0, 2, 3, 4, 5\n  stderr: %q", what, run.Res.Exit, firstN(string(run.Res.Stderr), 400)))
	}
	if run.Res.Exit != 0 && len(run.Res.Stderr) == 0 {
		res.Violate("C06", "silent-failure", fmt.Sprintf("exit-%d", run.Res.Exit), what+": non-zero exit status without anything on standard error")
	}
	return res
}
