// Package netsim is a small deterministic simulated TCP/IP world with a
// capture tap, plus capture-file writers (pcap, pcapng) written from scratch.
// It shares no code with fq or gopacket. Every choice comes from a Chooser
// (the run's choice tape); there is no real clock, no goroutine, no global
// random source and no map iteration that could influence the output.
//
// It is the generator side of harness hnet (DESIGN §3 C19): the world knows
// the ground truth (the bytes each endpoint sent), the tap records what a
// capture would contain, and Truth derives from the tap records what a correct
// reader of the capture must report.
package netsim

// Chooser is the choice tape (simrt.Tape satisfies it). 0 must always be the
// "simplest" answer: no fault, smallest size, first alternative.
type Chooser interface {
	Intn(n int) int
}

func rng(c Chooser, lo, hi int) int {
	if hi <= lo {
		return lo
	}
	return lo + c.Intn(hi-lo+1)
}

// chance is true with probability num/den; a zero draw is false.
func chance(c Chooser, num, den int) bool {
	return c.Intn(den) >= den-num
}

// pick returns one of the alternatives; alternative 0 for a zero draw.
func pick(c Chooser, alts ...int) int {
	return alts[c.Intn(len(alts))]
}

// prng is a private splitmix64 stream used to expand one tape-chosen seed into
// payload bytes (one tape entry per payload byte would make tapes of hundreds
// of thousands of entries that no shrinker could handle).
type prng uint64

func (p *prng) next() uint64 {
	*p += 0x9e3779b97f4a7c15
	z := uint64(*p)
	z = (z ^ (z >> 30)) * 0xbf58476d1ce4e5b9
	z = (z ^ (z >> 27)) * 0x94d049bb133111eb
	return z ^ (z >> 31)
}

// Payload styles.
const (
	payRandom = iota // pseudo random bytes
	payMarked        // every 8 bytes carry their own offset: a mismatch shows where bytes came from
	payText          // HTTP-like text
	payRamp          // b[i] = i + k
	numPayStyles
)

var payStyleNames = [...]string{"random", "marked", "text", "ramp"}

func genPayload(c Chooser, n int, tag byte) ([]byte, int) {
	if n == 0 {
		return nil, payRandom
	}
	style := c.Intn(numPayStyles)
	seed := prng(uint64(c.Intn(1<<30))<<8 | uint64(tag))
	b := make([]byte, n)
	switch style {
	case payRandom:
		for i := 0; i < n; i += 8 {
			v := seed.next()
			for j := 0; j < 8 && i+j < n; j++ {
				b[i+j] = byte(v >> (8 * j))
			}
		}
	case payMarked:
		k := byte(seed.next())
		for i := 0; i < n; i++ {
			switch i % 8 {
			case 0:
				b[i] = tag
			case 1:
				b[i] = k
			case 2:
				b[i] = byte(i >> 16)
			case 3:
				b[i] = byte(i >> 8)
			case 4:
				b[i] = byte(i)
			default:
				b[i] = byte(i*7) ^ k
			}
		}
	case payText:
		const head = "GET /index.html HTTP/1.1\r\nHost: example.test\r\nUser-Agent: hnet\r\n\r\n"
		const alpha = "abcdefghijklmnopqrstuvwxyz ABCDEFGHIJKLMNOPQRSTUVWXYZ0123456789\r\n"
		for i := 0; i < n; i++ {
			if i < len(head) {
				b[i] = head[i]
			} else {
				if i%8 == 0 {
					_ = seed.next()
				}
				b[i] = alpha[(uint64(seed)>>(uint(i%8)*6)+uint64(i))%uint64(len(alpha))]
			}
		}
	case payRamp:
		k := byte(seed.next())
		for i := 0; i < n; i++ {
			b[i] = byte(i) + k
		}
	}
	return b, style
}
