package harness

import (
	"bytes"
	"fmt"

	"github.com/wader/fq/internal/simrt"
	"github.com/wader/fq/zzverif/sim/core"
	"github.com/wader/fq/zzverif/sim/netsim"
	"github.com/wader/fq/zzverif/sim/simos"
)

// hsplit: the history dimension of C18 on inputs that carry cross-record state.
// A simulated conversation (fragmenting router, retransmissions, several
// connections) is captured and the capture is cut into two files at a
// tape-chosen packet: the first holds half-open connections and incomplete
// fragment lists, the second their continuation. In one process fq decodes
// B, then A, then B twice more (each its own Interp): all decodes of B must be
// byte-identical - whatever A left behind in reassembly state must not reach B.

func init() { core.Register(&hsplit{}) }

type hsplit struct{}

func (*hsplit) Name() string { return "hsplit" }

func splitCapture(w *netsim.World, spec *netsim.CaptureSpec, from, to int) []byte {
	saved := make([]bool, len(w.Tap))
	for i := range w.Tap {
		saved[i] = w.Tap[i].Omitted
		if i < from || i >= to {
			w.Tap[i].Omitted = true
		}
	}
	b := netsim.WriteCapture(w, spec)
	for i := range w.Tap {
		w.Tap[i].Omitted = saved[i]
	}
	return b
}

func (*hsplit) Run(rc *core.RunCtx) *core.RunResult {
	res := core.NewResult()
	t := rc.T
	params := netsim.Params{V4Only: true} // the split property is not about address families
	w := netsim.Generate(t, params)
	w.Run()
	res.Steps = w.Events
	res.SimNanos = w.Now
	if w.Err != "" {
		res.Violate("HARNESS", "generator", "hsplit", w.Err)
		return res
	}
	spec := netsim.DrawCaptureSpec(t, params, w)
	n := len(w.Tap)
	if n < 4 {
		return res
	}
	// cut points biased to lie inside a fragmented datagram or inside a connection
	k := 1 + t.Intn(n-1)
	for i := 1; i < n; i++ {
		if t.Intn(3) == 0 && w.Tap[i].NFrag > 1 && w.Tap[i].Frag > 0 {
			k = i
			break
		}
	}
	capA := splitCapture(w, spec, 0, k)
	capB := splitCapture(w, spec, k, n)
	for i, nf := range w.Faults {
		if nf > 0 {
			res.Faults[netsim.FaultNames[i]] += nf
		}
	}
	format := "pcap"
	if spec.IsPcapng() {
		format = "pcapng"
	}
	prog := []string{"dv", "d", "[.. | select(_is_scalar?) | tovalue?] | tojson"}[t.Intn(3)]
	run := func(name string, data []byte) (*fqRun, *simos.OS) {
		o := simos.New(t)
		o.Disk.Benign = true
		o.AddFile(name, simos.Regular, data)
		o.ArgsV = []string{"fq", "-d", format, prog, name}
		return runFQ(t, o, fqOpts{Policy: simrt.PolSequential}), o
	}
	what := fmt.Sprintf("capture of %d packets (%s) cut at packet %d, program %q", n, spec.Key(), k, prog)
	// two orders: "B A B B" finds state that accumulates (B after A differs from B before A);
	// "A B B" finds state that the decode right after A uses up (the first B differs from the
	// second) - with B decoded first its own leftovers would already have been consumed by A
	variant := t.Intn(2)
	var b1 *fqRun
	if variant == 0 {
		b1, _ = run("b.cap", capB)
		if !b1.abnormal(res, "C06", what+": first decode of the second part") {
			res.Inconclusive = ""
			return res
		}
	}
	a1, _ := run("a.cap", capA)
	if !a1.abnormal(res, "C06", what+": decode of the first part") {
		res.Inconclusive = ""
		return res
	}
	b2, _ := run("b.cap", capB)
	if !b2.abnormal(res, "C18", what+": decode of the second part after the first") {
		return res
	}
	if b1 == nil {
		b1 = b2
	}
	// and once more: state that the first part left behind may be used up by the decode right
	// after it, so only that one differs
	b3, _ := run("b.cap", capB)
	if !b3.abnormal(res, "C18", what+": third decode of the second part") {
		return res
	}
	res.Fingerprint = fnv64(fnv64(0, capA), capB)
	res.Nontrivial = true
	cutInFrag := w.Tap[k].NFrag > 1 && w.Tap[k].Frag > 0
	if cutInFrag {
		res.Probes["cut_inside_fragmented_datagram"]++
	}
	res.Probes["split_captures"]++
	res.Sample = map[string]any{"packets": n, "cut": k, "flavour": spec.Key(), "program": prog, "cut_inside_fragment": cutInFrag}
	for i, bx := range []*fqRun{b2, b3} {
		if !bytes.Equal(b1.Res.Stdout, bx.Res.Stdout) || !bytes.Equal(b1.Res.Stderr, bx.Res.Stderr) || b1.Res.Exit != bx.Res.Exit {
			d := firstDiff(b1.Res.Stdout, bx.Res.Stdout)
			res.Violate("C18", "state-leak", "capture-split:"+format, fmt.Sprintf("%s: the second part decoded after the first part (decode %d of it) differs from the same file decoded before it (first stdout difference at byte %d, status %d vs %d)\n  after:  %q\n  before: %q", what, i+2, d, bx.Res.Exit, b1.Res.Exit, ctxAround(bx.Res.Stdout, d), ctxAround(b1.Res.Stdout, d)))
			break
		}
	}
	return res
}
