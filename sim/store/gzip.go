package store

import (
	"bytes"
	"compress/gzip"
	"encoding/binary"
	"fmt"
	"hash/crc32"
	"time"
)

// GzipMember is what one gzip member was given and where its parts lie.
type GzipMember struct {
	Name, Comment string
	Extra         []byte
	MTime         uint32
	Level         int
	XFL, OS       byte
	Flags         byte
	Payload       []byte
	PayloadKind   string
	// offsets in the file
	Start, HdrEnd, DataEnd, End int
	CRC32, ISize                uint32
}

type GzipTruth struct {
	Members []GzipMember
}

var gzipLevels = []int{gzip.NoCompression, gzip.BestSpeed, 4, gzip.DefaultCompression, 6, gzip.BestCompression, gzip.HuffmanOnly}

// WriteGzip stores 0..6 members, each written by its own compress/gzip
// writer. Names and comments are 7-bit: RFC 1952 says Latin-1, common tools
// store whatever bytes the file system uses, so anything else has no agreed
// reading.
func WriteGzip(g Gen) *File {
	f := &File{Format: "gzip", Name: "f.gz", Gzip: &GzipTruth{}}
	n := memberCount(g)
	var buf bytes.Buffer
	for i := 0; i < n; i++ {
		m := GzipMember{OS: 255}
		m.Level = gzipLevels[g.Intn(len(gzipLevels))]
		// optional header fields: none (often), or any combination
		if k := g.Intn(8); k < 3 {
			// k == 0: name and comment; else any combination
			if k == 0 || g.Bool(1, 2) {
				st := NameASCII
				if g.Bool(1, 5) {
					st = NameLong
				}
				m.Name = asciiOnly(Name(g, st))
			}
			if k == 0 || g.Bool(1, 3) {
				m.Comment = "comment " + pick(g, asciiStems)
			}
			if k != 0 && g.Bool(1, 3) {
				m.Extra = make([]byte, g.Range(1, 12))
				newPrng(g).fill(m.Extra)
			}
		}
		switch g.Intn(4) {
		case 0:
			m.MTime = 0
		case 1:
			m.MTime = uint32(g.Range(1, 1<<30))
		default:
			m.MTime = uint32(1500000000 + g.Intn(200000000))
		}
		m.Payload, m.PayloadKind = Payload(g)

		m.Start = buf.Len()
		w, err := gzip.NewWriterLevel(&buf, m.Level)
		if err != nil {
			f.fail("gzip level %d: %v", m.Level, err)
			break
		}
		w.Name, w.Comment, w.Extra = m.Name, m.Comment, m.Extra
		if m.MTime != 0 {
			w.ModTime = time.Unix(int64(m.MTime), 0)
		}
		// written in 1..3 pieces (the writer must not care)
		p := m.Payload
		for pieces := g.Range(1, 3); pieces > 1 && len(p) > 1; pieces-- {
			k := g.Range(1, len(p)-1)
			w.Write(p[:k])
			p = p[k:]
		}
		w.Write(p)
		if err := w.Close(); err != nil {
			f.fail("gzip close: %v", err)
		}
		m.End = buf.Len()
		m.DataEnd = m.End - 8
		hl := 10
		if len(m.Extra) > 0 {
			hl += 2 + len(m.Extra)
			m.Flags |= 4
		}
		if m.Name != "" {
			hl += len(m.Name) + 1
			m.Flags |= 8
		}
		if m.Comment != "" {
			hl += len(m.Comment) + 1
			m.Flags |= 16
		}
		m.HdrEnd = m.Start + hl
		switch m.Level {
		case gzip.BestCompression:
			m.XFL = 2
		case gzip.BestSpeed:
			m.XFL = 4
		}
		m.CRC32 = crc32.ChecksumIEEE(m.Payload)
		m.ISize = uint32(len(m.Payload))
		f.Gzip.Members = append(f.Gzip.Members, m)
	}
	f.Data = buf.Bytes()
	// self check against the bytes written + regions
	for i := range f.Gzip.Members {
		m := &f.Gzip.Members[i]
		d := f.Data
		if m.HdrEnd > m.DataEnd || d[m.Start] != 0x1f || d[m.Start+1] != 0x8b || d[m.Start+3] != m.Flags || d[m.Start+8] != m.XFL || d[m.Start+9] != m.OS ||
			binary.LittleEndian.Uint32(d[m.Start+4:]) != m.MTime ||
			binary.LittleEndian.Uint32(d[m.DataEnd:]) != m.CRC32 || binary.LittleEndian.Uint32(d[m.DataEnd+4:]) != m.ISize {
			f.fail("gzip member %d: layout differs from the model (flags %#x xfl %d)", i, d[m.Start+3], d[m.Start+8])
		}
		f.region(m.Start, m.HdrEnd, i, KHeader, "")
		f.region(m.HdrEnd, m.DataEnd, i, KPayload, "crc32")
		f.region(m.DataEnd, m.DataEnd+4, i, KChecksum, "crc32")
		f.region(m.DataEnd+4, m.End, i, KLength, "")
	}
	f.Note = fmt.Sprintf("gzip %d members", len(f.Gzip.Members))
	return f
}

// memberCount draws 0..6, zero rarely.
func memberCount(g Gen) int {
	if g.Bool(1, 14) {
		return 0
	}
	if g.Bool(1, 2) {
		return g.Range(1, 2)
	}
	return g.Range(1, 6)
}

func asciiOnly(s string) string {
	b := []byte(s)
	for i := range b {
		if b[i] >= 0x80 {
			b[i] = 'u'
		}
	}
	return string(b)
}
