package harness

import (
	"encoding/base64"
	"encoding/json"
	"fmt"
	"hash/fnv"
	"runtime/debug"
	"strings"

	_ "github.com/wader/fq/format/all"
	"github.com/wader/fq/pkg/interp"
	"github.com/wader/fq/zzverif/sim/core"
	"github.com/wader/fq/zzverif/sim/simos"
	"github.com/wader/fq/zzverif/sim/store"
)

// H-STORE: harness for C15 (DESIGN §3 C15). Writer nodes (sim/store: the Go
// standard library container writers and a hand-written WAV header) store one
// object generated from the tape on the simulated disk; the reader node is
// the whole of fq run in process (interp.Main) with a query that prints what
// fq reports about the object as JSON.
//
// Configurations:
//
//	intact  read back; names, sizes, header fields and payloads must equal what
//	        the writer was given and every stored checksum fq marks must be
//	        marked valid
//	torn    the writer crashed: the file is a prefix cut at a tape-chosen byte
//	bitrot  one tape-chosen byte is altered after the write, biased to lie in a
//	        checksummed region or in a stored checksum
//
// A configuration may be narrowed to one format for triage: "bitrot@png".
//
// Under a fault the oracle is "never a clean wrong result": per member either
// what is reported equals the original, or the member's checksum is shown
// invalid, or the decode reports an error / a non-zero exit status / the
// member is absent. A member that fq read completely from bytes in front of
// the cut of a torn file must be right whatever happens later.

func init() { core.Register(&hstore{}) }

type hstore struct{}

func (*hstore) Name() string { return "hstore" }

// format weights: the formats with checksums and members get most runs
var hstoreFormats = []string{"gzip", "gzip", "gzip", "gzip", "zip", "zip", "zip", "zip", "tar", "tar", "tar", "tar", "png", "png", "png", "gif", "gif", "wav", "wav"}

type storeFault struct {
	Kind   string // "", torn, bitrot
	Off    int    // cut position / altered byte
	Old    byte
	New    byte
	Region *store.Region // region of the altered byte (bitrot)
}

type storeRun struct {
	rc       *core.RunCtx
	res      *core.RunResult
	f        *store.File
	fault    storeFault
	data     []byte // stored bytes after the fault
	exit     int
	stdout   string
	stderr   string
	rootErr  string // fq's root decode error ("" = none)
	noResult bool   // fq printed nothing the oracle can read
	seen     map[string]bool
	// outcome counters
	invalidShown bool
	mismatches   int
}

const jqPrelude = `def b: if type=="null" then null else (tobytes|tohex) end; ` +
	`def a: if type=="null" then null else toactual end; ` +
	`def v: if type=="null" then null else tovalue end; ` +
	`def desc: if type=="null" then null else ._description end; ` +
	`def st: ._start/8; def en: ._stop/8; ` +
	`def err: ._error | if type=="null" then null else (.error|tostring) end; `

func (h *storeRun) violate(oracle, key, f string, a ...any) {
	cl := oracle + "|" + key
	if h.seen[cl] {
		return
	}
	h.seen[cl] = true
	h.res.Violate("C15", oracle, key, h.f.Format+" "+h.faultDesc()+": "+fmt.Sprintf(f, a...))
}

func (h *storeRun) faultDesc() string {
	switch h.fault.Kind {
	case "torn":
		return fmt.Sprintf("torn at %d of %d", h.fault.Off, len(h.f.Data))
	case "bitrot":
		r := "no region"
		if h.fault.Region != nil {
			r = fmt.Sprintf("%s of member %d, covered by %q", h.fault.Region.Kind, h.fault.Region.Member, h.fault.Region.Check)
		}
		return fmt.Sprintf("byte %d %#02x->%#02x (%s)", h.fault.Off, h.fault.Old, h.fault.New, r)
	}
	return "intact"
}

func (h *storeRun) faulted() bool { return h.fault.Kind != "" }

// errorReported: the decode reported an error or fq ended with a non-zero
// exit status.
func (h *storeRun) errorReported() bool { return h.exit != 0 || h.noResult || h.rootErr != "" }

// beforeCut: in a torn file a stored member that ends at end (an offset of
// the ground truth) lies completely in front of the cut; fq's decoders for
// gzip, tar, png, gif and wav read forward only, so what they say about it
// cannot depend on the missing rest.
func (h *storeRun) beforeCut(end int) bool {
	return h.fault.Kind == "torn" && end <= h.fault.Off
}

func (st *hstore) Run(rc *core.RunCtx) (res *core.RunResult) {
	res = core.NewResult()
	t := rc.T
	format := hstoreFormats[t.Intn(len(hstoreFormats))]
	config := rc.Config
	if c, only, ok := strings.Cut(rc.Config, "@"); ok {
		// "bitrot@png": one format only (for triage; the draw above is kept so that tapes stay comparable)
		config, format = c, only
	}
	f := store.Write(t, format)
	if f == nil {
		res.Inconclusive = "unknown format in configuration " + rc.Config
		return res
	}
	h := &storeRun{rc: rc, res: res, f: f, seen: map[string]bool{}}
	res.Extra["fmt_"+format]++
	if f.SelfCheck != "" {
		// the writer node contradicts its own model: a harness bug
		res.Violate("C15", "harness-writer-selfcheck", format, f.SelfCheck)
		return res
	}
	h.data = f.Data
	switch config {
	case "intact", "default":
	case "torn":
		if len(f.Data) > 0 {
			h.fault.Kind = "torn"
			h.fault.Off = h.chooseCut()
			h.data = f.Data[:h.fault.Off]
			res.Faults["torn_write"]++
		}
	case "bitrot":
		if len(f.Data) > 0 {
			h.fault.Kind = "bitrot"
			h.chooseRot()
			h.data = append([]byte{}, f.Data...)
			h.data[h.fault.Off] = h.fault.New
			res.Faults["bitrot"]++
			if r := h.fault.Region; r != nil && r.Check != "" {
				if r.Kind == store.KChecksum {
					res.Faults["bitrot_in_stored_checksum"]++
				} else {
					res.Faults["bitrot_in_checksummed_region"]++
				}
			} else {
				res.Faults["bitrot_in_uncovered_region"]++
			}
		}
	default:
		res.Inconclusive = "unknown configuration " + rc.Config
		return res
	}
	fp := fnv.New64a()
	fp.Write([]byte(format))
	fp.Write(f.Data)
	fmt.Fprintf(fp, "|%s|%d|%d", h.fault.Kind, h.fault.Off, h.fault.New)
	res.Fingerprint = fp.Sum64()

	query := jqPrelude + storeQueries[format] + " | tojson"
	o := simos.New(t)
	o.AddFile(f.Name, simos.Regular, h.data)
	o.ArgsV = []string{"fq", "-d", format, "-r", query, f.Name}
	func() {
		defer func() {
			if p := recover(); p != nil {
				fn, class := core.PanicKey(fmt.Sprint(p), string(debug.Stack()))
				res.Violate("C15", "panic", format+":"+fn+":"+class, fmt.Sprintf("%s %s: panic: %v", format, h.faultDesc(), p))
				h.exit = -1
			}
		}()
		r := simos.RunFQ(o, interp.DefaultRegistry)
		h.exit, h.stdout, h.stderr = r.Exit, string(r.Stdout), string(r.Stderr)
	}()
	res.Steps = 1
	fmt.Fprintf(fp, "|%d|", h.exit)
	fp.Write([]byte(h.stdout))
	res.Fingerprint = fp.Sum64()
	sample := map[string]any{"format": format, "note": f.Note, "fault": h.faultDesc(), "size": len(h.data)}
	if len(h.data) <= 1024 {
		sample["file_base64"] = base64.StdEncoding.EncodeToString(h.data)
	}
	sample["args"] = []string{"fq", "-d", format, "-r", "<query>", f.Name}
	res.Sample = sample
	if h.exit == -1 {
		return res
	}
	res.Nontrivial = h.members() > 0
	res.Extra["members"] += h.members()
	h.features()

	ok := false
	if h.exit == 0 {
		ok = h.check(strings.TrimSpace(h.stdout))
	}
	if !ok {
		// fq ended with an error: no result at all
		res.Extra["nonzero_exit"]++
		h.noResult = true
		if !h.faulted() {
			h.intactFailure(fmt.Sprintf("exit %d, stderr %q, stdout %q", h.exit, firstBytes(h.stderr, 200), firstBytes(h.stdout, 100)))
		}
	}
	if h.faulted() {
		switch {
		case h.errorReported():
			res.Extra["decode_error_reported"]++
		case h.invalidShown:
			res.Extra["member_reported_invalid"]++
		case h.mismatches == 0 && len(res.Violations) == 0:
			res.Extra["clean_correct_after_fault"]++
		}
		if h.invalidShown && h.errorReported() {
			res.Extra["member_reported_invalid"]++
		}
	}
	if len(res.Violations) > 0 {
		sample["query"] = query
		res.Trace = append(res.Trace, "stdout: "+firstBytes(h.stdout, 4000), "stderr: "+firstBytes(h.stderr, 1000))
	}
	return res
}

func firstBytes(s string, n int) string {
	if len(s) > n {
		return s[:n] + "..."
	}
	return s
}

func (h *storeRun) members() int {
	f := h.f
	switch f.Format {
	case "gzip":
		return len(f.Gzip.Members)
	case "zip":
		return len(f.Zip.Members)
	case "tar":
		return len(f.Tar.Members)
	case "png":
		return len(f.PNG.Chunks)
	case "gif":
		return len(f.GIF.Frames)
	case "wav":
		return 1
	}
	return 0
}

// chooseCut draws where the crash cut the file: anywhere, or next to the
// boundary of a region (member and field boundaries are where parsers slip).
func (h *storeRun) chooseCut() int {
	t, n := h.rc.T, len(h.f.Data)
	if t.Bool(1, 3) && len(h.f.Regions) > 0 {
		r := h.f.Regions[t.Intn(len(h.f.Regions))]
		c := r.Start
		if t.Bool(1, 2) {
			c = r.End
		}
		c += t.Range(-1, 1)
		if c >= 0 && c < n {
			h.res.Extra["torn_near_boundary"]++
			return c
		}
	}
	return t.Intn(n)
}

// chooseRot draws the altered byte: three times out of four inside a region a
// stored checksum covers or inside a stored checksum, else anywhere.
func (h *storeRun) chooseRot() {
	t, f := h.rc.T, h.f
	off := -1
	if t.Bool(3, 4) {
		var cov []int
		for i := range f.Regions {
			if f.Regions[i].Check != "" {
				cov = append(cov, i)
			}
		}
		if len(cov) > 0 {
			r := f.Regions[cov[t.Intn(len(cov))]]
			off = r.Start + t.Intn(r.End-r.Start)
		}
	}
	if off < 0 {
		off = t.Intn(len(f.Data))
	}
	var mask byte
	switch t.Intn(4) {
	case 0, 1:
		mask = 1 << uint(t.Intn(8))
	case 2:
		mask = 0xff
	default:
		mask = byte(1 + t.Intn(255))
	}
	h.fault.Off, h.fault.Old, h.fault.New = off, f.Data[off], f.Data[off]^mask
	h.fault.Region = f.RegionAt(off)
}

// check parses what fq printed and runs the oracle of the format; false if
// the output is not the JSON document the query builds.
func (h *storeRun) check(out string) bool {
	if out == "" || out[0] != '{' {
		return false
	}
	dec := func(v any) bool {
		d := json.NewDecoder(strings.NewReader(out))
		return d.Decode(v) == nil
	}
	switch h.f.Format {
	case "gzip":
		var r gzipReport
		if !dec(&r) {
			return false
		}
		h.rootErr = str(r.Err)
		h.checkGzip(&r)
	case "zip":
		var r zipReport
		if !dec(&r) {
			return false
		}
		h.rootErr = str(r.Err)
		h.checkZip(&r)
	case "tar":
		var r tarReport
		if !dec(&r) {
			return false
		}
		h.rootErr = str(r.Err)
		h.checkTar(&r)
	case "png":
		var r pngReport
		if !dec(&r) {
			return false
		}
		h.rootErr = str(r.Err)
		h.checkPNG(&r)
	case "gif":
		var r gifReport
		if !dec(&r) {
			return false
		}
		h.rootErr = str(r.Err)
		h.checkGIF(&r)
	case "wav":
		var r wavReport
		if !dec(&r) {
			return false
		}
		h.rootErr = str(r.Err)
		h.checkWAV(&r)
	}
	return true
}

// features counts what kind of object was stored (rare kinds are the
// evidence that the generator reaches them).
func (h *storeRun) features() {
	f, p := h.f, h.res.Probes
	kind := func(k string, n int) {
		if k != "" {
			p["payload_"+k]++
		}
		if n > 65536 {
			p["payload_gt_64k"]++
		}
	}
	switch f.Format {
	case "gzip":
		if len(f.Gzip.Members) > 1 {
			p["gzip_multi_member"]++
		}
		for _, m := range f.Gzip.Members {
			kind(m.PayloadKind, len(m.Payload))
			if m.Flags != 0 {
				p[fmt.Sprintf("gzip_flags_%02x", m.Flags)]++
			}
			if m.Level == 0 {
				p["gzip_level_0"]++
			}
		}
	case "zip":
		if len(f.Zip.Members) == 0 {
			p["zip_empty"]++
		}
		for _, m := range f.Zip.Members {
			kind(m.PayloadKind, len(m.Payload))
			switch {
			case m.IsDir:
				p["zip_dir"]++
			case m.Method == 0 && m.Descriptor:
				p["zip_store_descriptor"]++
			case m.Method == 0:
				p["zip_store_sized"]++
			case m.Descriptor:
				p["zip_deflate_descriptor"]++
			default:
				p["zip_deflate_sized"]++
			}
			if !store.IsASCII(m.Name) {
				p["zip_unicode_name"]++
			}
		}
		if f.Zip.Comment != "" {
			p["zip_comment"]++
		}
	case "tar":
		for _, m := range f.Tar.Members {
			kind(m.PayloadKind, len(m.Payload))
			p["tar_format_"+m.Format]++
			if m.HdrOff > m.Start {
				p["tar_extension_records"]++
			}
			if len(m.Name) > 100 {
				p["tar_name_gt_100"]++
			}
			if !store.IsASCII(m.Name) {
				p["tar_unicode_name"]++
			}
			if m.Typeflag != '0' {
				p["tar_typeflag_"+string(m.Typeflag)]++
			}
		}
	case "png":
		p["png_"+f.PNG.Mode]++
		n := 0
		for _, c := range f.PNG.Chunks {
			if c.Type == "IDAT" {
				n++
			}
			if c.Type == "zTXt" || c.Type == "tEXt" || c.Type == "tRNS" {
				p["png_"+c.Type]++
			}
		}
		if n > 1 {
			p["png_multi_idat"]++
		}
	case "gif":
		if len(f.GIF.Frames) > 1 {
			p["gif_multi_frame"]++
		}
		for _, fr := range f.GIF.Frames {
			if fr.Local != nil {
				p["gif_local_color_table"]++
			}
			if fr.HasGCE {
				p["gif_graphic_control"]++
			}
		}
		if f.GIF.HasLoopExt {
			p["gif_loop_extension"]++
		}
	case "wav":
		p[fmt.Sprintf("wav_fmt%d_%dbit", f.WAV.AudioFormat, f.WAV.BitsPerSample)]++
		if f.WAV.Padded {
			p["wav_odd_data"]++
		}
		if f.WAV.Software != "" {
			p["wav_list_chunk"]++
		}
	}
}
