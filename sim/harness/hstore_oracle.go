package harness

import (
	"bytes"
	"encoding/binary"
	"encoding/hex"
	"fmt"
	"hash/crc32"
	"strconv"
	"strings"

	"github.com/wader/fq/zzverif/sim/store"
)

// What fq is asked per format (the prelude defines b = payload bytes as hex,
// a = actual value, v = symbolic value, desc = description, st/en = byte
// offsets, err = the root decode error).
var storeQueries = map[string]string{
	"gzip": `{err: err, members: [(.members // [])[] | {start: st, end: en, name: (.name|a), comment: (.comment|a), mtime: (.mtime|a), ` +
		`xfl: (.extra_flags|a), os: (.os|a), method: (.compression_method|a), xlen: (.xlen|a), extra: (.extra_fields|b), isize: (.isize|a), crc: (.crc32|a), ` +
		`crc_desc: (.crc32|desc), u: (.uncompressed|b), c: (.compressed|b)}], all: (.uncompressed|b)}`,
	"zip": `{err: err, eocd: (.end_of_central_directory_record | if type=="null" then null else {n: (.nr_of_central_directory_records|a), ` +
		`size: (.size_of_central_directory|a), off: (.offset_of_start_of_central_directory|a), comment: (.comment|a)} end), ` +
		`central: [(.central_directories // [])[] | {start: st, end: en, name: (.file_name|a), method: (.compression_method|a), crc: (.crc32_uncompressed|a), ` +
		`crc_desc: (.crc32_uncompressed|desc), csize: (.compressed_size|a), usize: (.uncompressed_size|a), off: (.relative_offset_of_local_file_header|a), ` +
		`comment: (.file_comment|a), dd: (.flags.data_descriptor|a), date: (.last_modification.fat_date|a), time: (.last_modification.fat_time|a), ` +
		`mtime: ([.extra_fields[]? | .modification_time | a | select(type!="null")] | .[0])}], ` +
		`local: [(.local_files // [])[] | {start: st, end: en, name: (.file_name|a), method: (.compression_method|a), crc: (.crc32_uncompressed|a), ` +
		`crc_desc: (.crc32_uncompressed|desc), csize: (.compressed_size|a), usize: (.uncompressed_size|a), dd: (.flags.data_descriptor|a), ` +
		`date: (.last_modification.fat_date|a), time: (.last_modification.fat_time|a), u: (.uncompressed|b), c: (.compressed|b), ` +
		`mtime: ([.extra_fields[]? | .modification_time | a | select(type!="null")] | .[0]), ` +
		`di: (.data_indicator | if type=="null" then null else {sig: (.signature|desc), crc: (.crc32_uncompressed|a), crc_desc: (.crc32_uncompressed|desc), ` +
		`csize: (.compressed_size|a), usize: (.uncompressed_size|a)} end)}]}`,
	"tar": `{err: err, files: [(.files // [])[] | {start: st, end: en, name: (.name|a), prefix: (.prefix|a), typeflag: (.typeflag|a), size: (.size|v), ` +
		`mode: (.mode|v), uid: (.uid|v), gid: (.gid|v), mtime: (.mtime|v), chksum: (.chksum|v), chksum_desc: (.chksum|desc), linkname: (.linkname|a), ` +
		`magic: (.magic|a), uname: (.uname|a), gname: (.gname|a), data: (.data|b)}], end_marker: (.end_marker | if type=="null" then null else ._len/8 end)}`,
	"png": `{err: err, sig: (.signature|desc), chunks: [(.chunks // [])[] | {start: st, end: en, len: (.length|a), type: (.type|a), crc: (.crc|a), ` +
		`crc_desc: (.crc|desc), raw: b, data: (.data|b), width: (.width|a), height: (.height|a), bit_depth: (.bit_depth|a), color_type: (.color_type|a), ` +
		`compression: (.compression_method|a), filter: (.filter_method|a), interlace: (.interlace_method|a), keyword: (.keyword|a), text: (.text|a), ` +
		`ztext: (.uncompressed.text|a), palette: (.palette | if type=="null" then null else [.[] | [.r, .g, .b]] end), alphas: (.alphas|v)}]}`,
	"gif": `{err: err, header: (.header|a), width: (.width|a), height: (.height|a), gcp: (.gcp_follows|a), bit_depth: (.bit_depth|a), ` +
		`black: (.black_color|a), aspect: (.pixel_aspect_ratio|a), gcm: (.global_color_map|v), ` +
		`blocks: [(.blocks // [])[] | {start: st, end: en, intro: (.introducer|a), fc: (.function_code|a), ext: [.func_data_bytes[]? | .data | b], ` +
		`sep: (.separator_character|a), left: (.left|a), top: (.top|a), width: (.width|a), height: (.height|a), lcm_follows: (.local_color_map_follows|a), ` +
		`interlaced: (.image_interlaced|a), ibits: (.bit_depth|a), code_size: (.code_size|a), lcm: (.local_color_map|v), data: [.image_bytes[]? | .data | b]}], ` +
		`term: (.terminator|a)}`,
	"wav": `{err: err, id: (.id|a), size: (.size|a), format: (.format|a), chunks: [(.chunks // [])[] | {start: st, end: en, id: (.id|a), size: (.size|a), ` +
		`audio_format: (.audio_format|a), channels: (.num_channels|a), sample_rate: (.sample_rate|a), byte_rate: (.byte_rate|a), block_align: (.block_align|a), ` +
		`bits: (.bits_per_sample|a), samples: (.samples|b), type: (.type|a), sub: [.chunks[]? | {id: (.id|a), size: (.size|a), value: (.value|a)}]}]}`,
}

// ---------------------------------------------------------------------------
// loosely typed JSON helpers

func str(v any) string {
	switch x := v.(type) {
	case nil:
		return ""
	case string:
		return x
	}
	return fmt.Sprint(v)
}

func isNull(v any) bool { return v == nil }

// num: a JSON number (or a numeric string) as int64.
func num(v any) (int64, bool) {
	switch x := v.(type) {
	case float64:
		if x != float64(int64(x)) {
			return 0, false
		}
		return int64(x), true
	case bool:
		if x {
			return 1, true
		}
		return 0, true
	}
	return 0, false
}

func numIs(v any, want int64) bool {
	n, ok := num(v)
	return ok && n == want
}

func strIs(v any, want string) bool {
	if v == nil {
		return want == ""
	}
	s, ok := v.(string)
	return ok && s == want
}

func hexIs(v any, want []byte) bool {
	s, ok := v.(string)
	if !ok {
		return false
	}
	return len(s) == 2*len(want) && s == hex.EncodeToString(want)
}

func unhex(v any) ([]byte, bool) {
	s, ok := v.(string)
	if !ok {
		return nil, false
	}
	b, err := hex.DecodeString(s)
	return b, err == nil
}

func show(v any) string {
	s := fmt.Sprintf("%#v", v)
	if len(s) > 80 {
		s = s[:80] + "..."
	}
	return s
}

// cmp collects field differences of one member.
type cmp struct {
	diffs []string // "field: got X want Y"
	names []string // names of the differing fields
}

func (c *cmp) add(field string, ok bool, got any, want any) {
	if ok {
		return
	}
	c.names = append(c.names, field)
	c.diffs = append(c.diffs, fmt.Sprintf("%s: fq %s, stored %s", field, show(got), show(want)))
}
func (c *cmp) num(field string, got any, want int64)  { c.add(field, numIs(got, want), got, want) }
func (c *cmp) str(field string, got any, want string) { c.add(field, strIs(got, want), got, want) }
func (c *cmp) hex(field string, got any, want []byte) {
	c.add(field, hexIs(got, want), fmt.Sprintf("hex(%d)", len(str(got))/2), store.Summary(want))
}
func (c *cmp) has(field string) bool {
	for _, n := range c.names {
		if n == field {
			return true
		}
	}
	return false
}
func (c *cmp) only(fields ...string) bool {
	for _, n := range c.names {
		ok := false
		for _, f := range fields {
			if n == f {
				ok = true
			}
		}
		if !ok {
			return false
		}
	}
	return true
}
func (c *cmp) String() string { return strings.Join(c.diffs, "; ") }

// intactFailure: fq gave no result (or a root decode error) for a file
// nothing happened to. Known causes are recognised by what was stored, not
// by the error text.
func (h *storeRun) intactFailure(detail string) {
	f := h.f
	switch f.Format {
	case "gzip":
		if len(f.Gzip.Members) == 0 {
			// an empty file holds no member: "no members found" is a fair answer
			h.res.Extra["gzip_empty_rejected"]++
			return
		}
		for i, m := range f.Gzip.Members {
			if gzipFlagsMisread(&m) {
				h.violate("field-mismatch", "gzip:header-flags-bit-order", "member %d has header flags %#02x (FEXTRA 4, FNAME 8, FCOMMENT 16): %s", i, m.Flags, detail)
				return
			}
		}
	case "zip":
		if len(f.Zip.Comment) > 100 {
			h.violate("decode-error-on-intact", "zip:end-record-beyond-128-bytes", "archive comment of %d bytes: %s", len(f.Zip.Comment), detail)
			return
		}
	case "tar":
		if len(f.Tar.Members) == 0 {
			h.violate("decode-error-on-intact", "tar:empty-archive", "archive without entries (two zero blocks): %s", detail)
			return
		}
	case "gif":
		for i, fr := range f.GIF.Frames {
			if fr.Local != nil {
				h.violate("field-mismatch", "gif:local-color-table", "frame %d has a local colour table: %s", i, detail)
				return
			}
		}
	}
	h.violate("decode-error-on-intact", f.Format+":decode-error", "%s", detail)
}

// ---------------------------------------------------------------------------
// gzip

type gzipReport struct {
	Err     any
	Members []struct {
		Start, End                                  float64
		Name, Comment, Mtime, Xfl, Os, Method, Xlen any
		Extra, Isize, Crc, Crc_desc, U, C           any
	}
	All any
}

// gzipFlagsMisread: header flag combinations that a reader with the flag
// bits in reverse order gets wrong (FNAME and FCOMMENT swap, FEXTRA is not
// seen): anything but "none" and "name and comment, no extra".
func gzipFlagsMisread(m *store.GzipMember) bool {
	return m.Flags != 0 && m.Flags != 8|16
}

func (h *storeRun) checkGzip(r *gzipReport) {
	gt := h.f.Gzip
	if !h.faulted() {
		if r.Err != nil {
			h.intactFailure("decode error: " + str(r.Err))
			return
		}
		if len(r.Members) != len(gt.Members) {
			h.violate("field-mismatch", "gzip:member-count", "fq reports %d members, %d were stored", len(r.Members), len(gt.Members))
			return
		}
	}
	var all []byte
	allOK := true
	for j := range r.Members {
		rm := &r.Members[j]
		// the stored member that starts where fq says this one does
		var m *store.GzipMember
		mi := -1
		for i := range gt.Members {
			if gt.Members[i].Start == int(rm.Start) {
				m, mi = &gt.Members[i], i
			}
		}
		if rm.Crc_desc != nil && str(rm.Crc_desc) != "valid" {
			h.invalidShown = true
		}
		if m == nil {
			allOK = false
			if str(rm.Crc_desc) == "valid" && rm.U != nil {
				h.violate("clean-wrong-result", "gzip:phantom-member", "member %d at %v with a valid crc32 does not exist in what was stored", j, rm.Start)
			}
			continue
		}
		all = append(all, m.Payload...)
		var c cmp
		c.num("start", rm.Start, int64(m.Start))
		c.num("end", rm.End, int64(m.End))
		c.str("name", rm.Name, m.Name)
		c.str("comment", rm.Comment, m.Comment)
		c.num("mtime", rm.Mtime, int64(m.MTime))
		c.num("extra_flags", rm.Xfl, int64(m.XFL))
		c.num("os", rm.Os, int64(m.OS))
		c.num("compression_method", rm.Method, 8)
		if len(m.Extra) > 0 {
			c.num("xlen", rm.Xlen, int64(len(m.Extra)))
			c.hex("extra_fields", rm.Extra, m.Extra)
		} else {
			c.add("xlen", rm.Xlen == nil, rm.Xlen, nil)
		}
		c.num("isize", rm.Isize, int64(m.ISize))
		c.num("crc32", rm.Crc, int64(m.CRC32))
		c.hex("uncompressed", rm.U, m.Payload)
		c.hex("compressed", rm.C, h.f.Data[m.HdrEnd:m.DataEnd])
		valid := str(rm.Crc_desc) == "valid"
		if got, ok := unhex(rm.U); ok && valid && !numIs(rm.Crc, int64(crc32.ChecksumIEEE(got))) {
			// "valid" says the stored crc32 is the crc32 of the payload shown
			h.violate("clean-wrong-result", "gzip:crc32-valid-but-differs", "member %d: crc32 %v is marked valid, the crc32 of the %d payload bytes shown is %#x", mi, rm.Crc, len(got), crc32.ChecksumIEEE(got))
		}
		if !h.faulted() || h.beforeCut(m.End) {
			if h.faulted() {
				h.res.Extra["prefix_member_checked"]++
			}
			if len(c.diffs) > 0 && gzipFlagsMisread(m) {
				h.violate("field-mismatch", "gzip:header-flags-bit-order", "member %d has header flags %#02x (FEXTRA 4, FNAME 8, FCOMMENT 16): %s", mi, m.Flags, c.String())
				allOK = false
				continue
			}
			switch {
			case c.has("uncompressed"):
				h.violate("payload-mismatch", "gzip:payload", "member %d: %s", mi, c.String())
			case c.has("name") || c.has("comment"):
				h.violate("name-mismatch", "gzip:name", "member %d: %s", mi, c.String())
			case len(c.diffs) > 0:
				h.violate("field-mismatch", "gzip:"+c.names[0], "member %d: %s", mi, c.String())
			}
			if !valid {
				h.violate("checksum-not-valid-on-intact", "gzip:crc32", "member %d: crc32 description %v", mi, rm.Crc_desc)
			}
			continue
		}
		// faulted: the payload is covered by crc32; header fields by nothing
		if len(c.diffs) > 0 {
			h.mismatches++
		}
		if rm.U != nil && c.has("uncompressed") {
			allOK = false
			if valid {
				h.violate("clean-wrong-result", "gzip:payload", "member %d is shown with a valid crc32 but: %s", mi, c.String())
			} else if rm.Crc_desc == nil && !h.errorReported() {
				h.violate("clean-wrong-result", "gzip:payload-unchecked", "member %d has no crc32 verdict, no error is reported and: %s", mi, c.String())
			}
		}
	}
	if !h.faulted() {
		var c cmp
		c.hex("uncompressed", r.All, all)
		if len(c.diffs) > 0 && len(h.res.Violations) == 0 {
			h.violate("payload-mismatch", "gzip:concatenated", "root %s", c.String())
		}
	} else if r.All != nil && allOK && !h.errorReported() && !h.invalidShown && len(r.Members) > 0 {
		var c cmp
		c.hex("uncompressed", r.All, all)
		if len(c.diffs) > 0 {
			h.violate("clean-wrong-result", "gzip:concatenated", "root %s", c.String())
		}
	}
}

// ---------------------------------------------------------------------------
// zip

type zipEntryReport struct {
	Start, End                                              float64
	Name, Method, Crc, Crc_desc, Csize, Usize, Off, Comment any
	Dd, Date, Time, Mtime, U, C                             any
	Di                                                      *struct{ Sig, Crc, Crc_desc, Csize, Usize any }
}

type zipReport struct {
	Err     any
	Eocd    *struct{ N, Size, Off, Comment any }
	Central []zipEntryReport
	Local   []zipEntryReport
}

func (h *storeRun) checkZip(r *zipReport) {
	zt := h.f.Zip
	d := h.f.Data
	if !h.faulted() {
		if r.Err != nil {
			h.intactFailure("decode error: " + str(r.Err))
			return
		}
		var c cmp
		if r.Eocd == nil {
			c.add("end_of_central_directory_record", false, nil, "present")
		} else {
			c.num("nr_of_central_directory_records", r.Eocd.N, int64(len(zt.Members)))
			c.num("size_of_central_directory", r.Eocd.Size, int64(zt.CDSize))
			c.num("offset_of_start_of_central_directory", r.Eocd.Off, int64(zt.CDOff))
			c.str("comment", r.Eocd.Comment, zt.Comment)
		}
		c.num("central_directories|length", float64(len(r.Central)), int64(len(zt.Members)))
		c.num("local_files|length", float64(len(r.Local)), int64(len(zt.Members)))
		if len(c.diffs) > 0 {
			h.violate("field-mismatch", "zip:"+c.names[0], "%s", c.String())
			return
		}
		marked := false
		for i := range zt.Members {
			m := &zt.Members[i]
			ce, lo := &r.Central[i], &r.Local[i]
			var c cmp
			c.num("central.start", ce.Start, int64(m.CentralOff))
			c.num("central.end", ce.End, int64(m.CentralEnd))
			c.str("central.file_name", ce.Name, m.Name)
			c.num("central.compression_method", ce.Method, int64(m.Method))
			c.num("central.crc32_uncompressed", ce.Crc, int64(m.CRC32))
			c.num("central.compressed_size", ce.Csize, int64(m.CSize))
			c.num("central.uncompressed_size", ce.Usize, int64(m.USize))
			c.num("central.relative_offset_of_local_file_header", ce.Off, int64(m.LocalOff))
			c.str("central.file_comment", ce.Comment, m.Comment)
			c.num("central.flags.data_descriptor", ce.Dd, hstoreB2i(m.Descriptor))
			c.num("central.fat_date", ce.Date, int64(zt.DosDates[i]))
			c.num("central.fat_time", ce.Time, int64(zt.DosTimes[i]))
			if m.Modified != 0 {
				c.num("central.extra.modification_time", ce.Mtime, m.Modified)
				c.num("local.extra.modification_time", lo.Mtime, m.Modified)
				// the DOS date and time are the same instant (UTC, two second steps)
				c.num("central.fat_time", ce.Time, dosTime(m.Modified))
				c.num("central.fat_date", ce.Date, dosDate(m.Modified))
			}
			c.num("local.start", lo.Start, int64(m.LocalOff))
			c.str("local.file_name", lo.Name, m.Name)
			c.num("local.compression_method", lo.Method, int64(m.Method))
			c.num("local.flags.data_descriptor", lo.Dd, hstoreB2i(m.Descriptor))
			c.num("local.fat_date", lo.Date, int64(zt.DosDates[i]))
			c.num("local.fat_time", lo.Time, int64(zt.DosTimes[i]))
			if m.Descriptor {
				c.num("local.crc32_uncompressed", lo.Crc, 0)
				c.num("local.compressed_size", lo.Csize, 0)
				c.num("local.uncompressed_size", lo.Usize, 0)
			} else {
				c.num("local.crc32_uncompressed", lo.Crc, int64(m.CRC32))
				c.num("local.compressed_size", lo.Csize, int64(m.CSize))
				c.num("local.uncompressed_size", lo.Usize, int64(m.USize))
				c.add("local.data_indicator", lo.Di == nil, "present", nil)
			}
			for _, dsc := range []any{ce.Crc_desc, lo.Crc_desc} {
				if dsc != nil {
					marked = true
					if str(dsc) != "valid" {
						h.violate("checksum-not-valid-on-intact", "zip:crc32", "member %d: crc32_uncompressed description %v", i, dsc)
					}
				}
			}
			if lo.Di != nil && lo.Di.Crc_desc != nil {
				marked = true
				if str(lo.Di.Crc_desc) != "valid" {
					h.violate("checksum-not-valid-on-intact", "zip:crc32", "member %d: data descriptor crc32 description %v", i, lo.Di.Crc_desc)
				}
			}
			if m.Descriptor && m.Method == 0 && len(m.Payload) > 0 && len(c.diffs) == 0 && (hexIs(lo.U, nil) || lo.U == nil) {
				// known gap: the local header says 0 bytes, the descriptor that follows the data is not looked for
				di := "absent"
				if lo.Di != nil {
					di = fmt.Sprintf("{signature %v, crc32 %v, compressed_size %v, uncompressed_size %v}", lo.Di.Sig, lo.Di.Crc, lo.Di.Csize, lo.Di.Usize)
				}
				h.violate("payload-mismatch", "zip:stored+descriptor-empty", "member %d (%q, stored, with data descriptor, %d bytes): uncompressed is %s, data_indicator %s",
					i, m.Name, len(m.Payload), show(lo.U), di)
				continue
			}
			c.num("local.end", lo.End, int64(m.End))
			c.hex("local.uncompressed", lo.U, m.Payload)
			if m.Method != 0 {
				c.hex("local.compressed", lo.C, d[m.DataOff:m.DataEnd])
			}
			if m.Descriptor {
				if lo.Di == nil {
					c.add("local.data_indicator", false, nil, "present")
				} else {
					c.str("local.data_indicator.signature", lo.Di.Sig, "valid")
					c.num("local.data_indicator.crc32_uncompressed", lo.Di.Crc, int64(m.CRC32))
					c.num("local.data_indicator.compressed_size", lo.Di.Csize, int64(m.CSize))
					c.num("local.data_indicator.uncompressed_size", lo.Di.Usize, int64(m.USize))
				}
			}
			switch {
			case c.has("local.uncompressed"):
				h.violate("payload-mismatch", "zip:payload", "member %d (method %d, descriptor %v): %s", i, m.Method, m.Descriptor, c.String())
			case c.has("local.file_name") || c.has("central.file_name"):
				h.violate("name-mismatch", "zip:name", "member %d: %s", i, c.String())
			case len(c.diffs) > 0:
				h.violate("field-mismatch", "zip:"+c.names[0], "member %d: %s", i, c.String())
			}
		}
		if !marked && len(zt.Members) > 0 {
			h.violate("checksum-not-verified", "zip:crc-not-verified", "none of the %d crc32_uncompressed fields (central directory, local header, data descriptor) carries a valid/invalid description", len(zt.Members))
		}
		return
	}
	// faulted: only payloads are covered by a checksum (crc32); names, sizes and
	// the directory by nothing
	for j := range r.Local {
		lo := &r.Local[j]
		var m *store.ZipMember
		mi := -1
		for i := range zt.Members {
			if zt.Members[i].LocalOff == int(lo.Start) {
				m, mi = &zt.Members[i], i
			}
		}
		for _, dsc := range []any{lo.Crc_desc} {
			if dsc != nil && str(dsc) != "valid" {
				h.invalidShown = true
			}
		}
		if lo.Di != nil && lo.Di.Crc_desc != nil && str(lo.Di.Crc_desc) != "valid" {
			h.invalidShown = true
		}
		if m == nil || lo.U == nil {
			continue
		}
		same := hexIs(lo.U, m.Payload)
		if !same {
			h.mismatches++
		}
		if h.errorReported() || h.invalidShown {
			continue
		}
		if m.Descriptor && m.Method == 0 && len(m.Payload) > 0 && hexIs(lo.U, nil) {
			h.violate("payload-mismatch", "zip:stored+descriptor-empty", "member %d (%q, stored, with data descriptor, %d bytes): uncompressed is empty", mi, m.Name, len(m.Payload))
			continue
		}
		// fq shows a payload and up to three copies of its crc32 (local header or
		// data descriptor, central directory): do they agree?
		got, _ := unhex(lo.U)
		sum := int64(crc32.ChecksumIEEE(got))
		shown, where := lo.Crc, "local header"
		if lo.Di != nil {
			shown, where = lo.Di.Crc, "data descriptor"
		}
		if numIs(shown, sum) {
			for k := range r.Central {
				if numIs(r.Central[k].Off, int64(m.LocalOff)) && !numIs(r.Central[k].Crc, sum) {
					shown, where = r.Central[k].Crc, "central directory"
				}
			}
		}
		if !numIs(shown, sum) {
			h.mismatches++
			h.violate("checksum-not-verified", "zip:crc-not-verified", "member %d (%q): fq shows a payload of %d bytes with crc32 %#x (stored: %d bytes, crc32 %#x) next to crc32_uncompressed %v in the %s, with no error and no invalid mark",
				mi, m.Name, len(got), sum, len(m.Payload), m.CRC32, shown, where)
			continue
		}
		if !same {
			h.violate("clean-wrong-result", "zip:payload", "member %d (%q): payload differs from what was stored and matches every crc32 shown", mi, m.Name)
		}
	}
}

func hstoreB2i(b bool) int64 {
	if b {
		return 1
	}
	return 0
}

func civil(unix int64) (y, mo, d, hh, mi, ss int) {
	days := unix / 86400
	rem := unix % 86400
	hh, mi, ss = int(rem/3600), int(rem%3600/60), int(rem%60)
	// civil from days (Howard Hinnant)
	z := days + 719468
	era := z / 146097
	doe := z - era*146097
	yoe := (doe - doe/1460 + doe/36524 - doe/146096) / 365
	yy := yoe + era*400
	doy := doe - (365*yoe + yoe/4 - yoe/100)
	mp := (5*doy + 2) / 153
	d = int(doy - (153*mp+2)/5 + 1)
	mo = int(mp + 3)
	if mo > 12 {
		mo -= 12
	}
	if mo <= 2 {
		yy++
	}
	return int(yy), mo, d, hh, mi, ss
}

func dosDate(unix int64) int64 {
	y, mo, d, _, _, _ := civil(unix)
	return int64(d + mo<<5 + (y-1980)<<9)
}

func dosTime(unix int64) int64 {
	_, _, _, hh, mi, ss := civil(unix)
	return int64(ss/2 + mi<<5 + hh<<11)
}

// ---------------------------------------------------------------------------
// tar

type tarFileReport struct {
	Start, End                                               float64
	Name, Prefix, Typeflag, Size, Mode, Uid, Gid, Mtime      any
	Chksum, Chksum_desc, Linkname, Magic, Uname, Gname, Data any
}

type tarReport struct {
	Err        any
	Files      []tarFileReport
	End_marker any
}

// tarEntry is a logical entry rebuilt from fq's list of 512-byte-header
// records the way POSIX pax and GNU tar define it: 'x' records carry
// "len key=value\n" overrides for the next entry, 'L' the next entry's name.
type tarEntry struct {
	hdr     *tarFileReport
	first   *tarFileReport // first record of the entry (extension or header)
	name    string
	link    string
	nameSrc string // header | prefix | pax | gnu
}

func tarEntries(files []tarFileReport) []tarEntry {
	var out []tarEntry
	var paxPath, paxLink, gnuName string
	var havePax, haveLink, haveGnu bool
	var first *tarFileReport
	for i := range files {
		fr := &files[i]
		if first == nil {
			first = fr
		}
		data, _ := unhex(fr.Data)
		switch str(fr.Typeflag) {
		case "x":
			for len(data) > 0 {
				sp := bytes.IndexByte(data, ' ')
				if sp < 0 {
					break
				}
				n, err := strconv.Atoi(string(data[:sp]))
				if err != nil || n <= sp+1 || n > len(data) {
					break
				}
				rec := string(data[sp+1 : n-1])
				data = data[n:]
				if k, v, ok := strings.Cut(rec, "="); ok {
					switch k {
					case "path":
						paxPath, havePax = v, true
					case "linkpath":
						paxLink, haveLink = v, true
					}
				}
			}
			continue
		case "L":
			gnuName, haveGnu = strings.TrimRight(string(data), "\x00"), true
			continue
		case "g":
			continue
		}
		e := tarEntry{hdr: fr, first: first, name: str(fr.Name), link: str(fr.Linkname), nameSrc: "header"}
		if p := str(fr.Prefix); p != "" {
			e.name, e.nameSrc = p+"/"+e.name, "prefix"
		}
		if haveGnu {
			e.name, e.nameSrc = gnuName, "gnu"
		}
		if havePax {
			e.name, e.nameSrc = paxPath, "pax"
		}
		if haveLink {
			e.link = paxLink
		}
		out = append(out, e)
		havePax, haveLink, haveGnu, first = false, false, false, nil
	}
	return out
}

func (h *storeRun) tarCompare(e *tarEntry, m *store.TarMember) *cmp {
	var c cmp
	fr := e.hdr
	c.num("start", e.first.Start, int64(m.Start))
	c.num("header.start", fr.Start, int64(m.HdrOff))
	c.num("end", fr.End, int64(m.End))
	c.str("name", e.name, m.Name)
	c.str("typeflag", fr.Typeflag, string(m.Typeflag))
	c.num("size", fr.Size, m.Size)
	c.num("mode", fr.Mode, m.Mode)
	c.num("uid", fr.Uid, int64(m.Uid))
	c.num("gid", fr.Gid, int64(m.Gid))
	c.num("mtime", fr.Mtime, m.MTime)
	c.num("chksum", fr.Chksum, m.Chksum)
	c.str("linkname", e.link, m.Linkname)
	c.str("uname", fr.Uname, m.Uname)
	c.str("gname", fr.Gname, m.Gname)
	c.str("magic", fr.Magic, "ustar")
	c.hex("data", fr.Data, m.Payload)
	h.res.Probes["tar_name_from_"+e.nameSrc]++
	return &c
}

func (h *storeRun) checkTar(r *tarReport) {
	tt := h.f.Tar
	if !h.faulted() {
		if r.Err != nil {
			h.intactFailure("decode error: " + str(r.Err))
			return
		}
	}
	ents := tarEntries(r.Files)
	if !h.faulted() {
		if len(ents) != len(tt.Members) {
			h.violate("field-mismatch", "tar:entry-count", "fq shows %d entries (%d records), %d were stored", len(ents), len(r.Files), len(tt.Members))
			return
		}
		marked := false
		for i := range ents {
			m := &tt.Members[i]
			c := h.tarCompare(&ents[i], m)
			switch {
			case c.has("data"):
				h.violate("payload-mismatch", "tar:payload", "entry %d: %s", i, c.String())
			case c.has("name") || c.has("linkname"):
				h.violate("name-mismatch", "tar:name-"+ents[i].nameSrc, "entry %d: %s", i, c.String())
			case len(c.diffs) > 0:
				h.violate("field-mismatch", "tar:"+c.names[0], "entry %d (format %q): %s", i, m.Format, c.String())
			}
			if d := ents[i].hdr.Chksum_desc; d != nil {
				marked = true
				if str(d) != "valid" {
					h.violate("checksum-not-valid-on-intact", "tar:chksum", "entry %d: chksum description %v", i, d)
				}
			}
		}
		if !numIs(r.End_marker, int64(len(h.f.Data)-tt.EndOff)) && len(h.res.Violations) == 0 {
			h.violate("field-mismatch", "tar:end_marker", "end marker of %v bytes, stored %d", r.End_marker, len(h.f.Data)-tt.EndOff)
		}
		if !marked && len(tt.Members) > 0 {
			h.violate("checksum-not-verified", "tar:chksum-not-verified", "none of the %d header chksum fields carries a valid/invalid description", len(r.Files))
		}
		return
	}
	// faulted
	for j := range r.Files {
		if d := r.Files[j].Chksum_desc; d != nil && str(d) != "valid" {
			h.invalidShown = true
		}
	}
	for j := range ents {
		e := &ents[j]
		var m *store.TarMember
		mi := -1
		for i := range tt.Members {
			if tt.Members[i].HdrOff == int(e.hdr.Start) {
				m, mi = &tt.Members[i], i
			}
		}
		if m == nil {
			h.mismatches++
			if !h.errorReported() && !h.invalidShown {
				h.tarCleanWrong(-1, fmt.Sprintf("an entry at %v that was never stored (name %q)", e.hdr.Start, e.name))
			}
			continue
		}
		c := h.tarCompare(e, m)
		if h.beforeCut(m.End) {
			h.res.Extra["prefix_member_checked"]++
			if len(c.diffs) > 0 {
				h.violate("clean-wrong-result", "tar:entry-before-cut", "entry %d lies in front of the cut: %s", mi, c.String())
			}
			continue
		}
		if len(c.diffs) == 0 {
			continue
		}
		h.mismatches++
		if h.errorReported() || h.invalidShown {
			continue
		}
		h.tarCleanWrong(mi, fmt.Sprintf("entry %d: %s", mi, c.String()), c.names...)
	}
}

// tarCleanWrong: a difference was reported with no error and no invalid
// mark. Whether that is legitimate depends on what the altered byte belongs
// to: tar checksums header blocks only.
func (h *storeRun) tarCleanWrong(member int, detail string, fields ...string) {
	rg := h.fault.Region
	if h.fault.Kind == "bitrot" && rg != nil {
		switch {
		case rg.Check == "chksum":
			// a header block: the stored chksum covers the byte (or is the byte)
			h.violate("checksum-not-verified", "tar:chksum-not-verified", "a byte of a header block was altered, its chksum no longer matches, fq shows no error and no invalid mark: %s", detail)
			return
		case rg.Member == member && (rg.Kind == store.KPayload || rg.Kind == store.KPadding):
			if (&cmp{names: fields}).only("data") {
				h.res.Extra["uncovered_difference_accepted"]++
				return
			}
		case rg.Member == member && rg.Kind == store.KMeta:
			// pax records / GNU long name data: no checksum covers them
			if (&cmp{names: fields}).only("name", "linkname") {
				h.res.Extra["uncovered_difference_accepted"]++
				return
			}
		case rg.Member == -1:
			if len(fields) == 0 {
				h.res.Extra["uncovered_difference_accepted"]++
				return
			}
		}
	}
	h.violate("clean-wrong-result", "tar:entry", "%s", detail)
}

// ---------------------------------------------------------------------------
// png

type pngChunkReport struct {
	Start, End                                                float64
	Len, Type, Crc, Crc_desc, Raw, Data                       any
	Width, Height, Bit_depth, Color_type, Compression, Filter any
	Interlace, Keyword, Text, Ztext, Alphas                   any
	Palette                                                   [][]any
}

type pngReport struct {
	Err    any
	Sig    any
	Chunks []pngChunkReport
}

func (h *storeRun) pngCompare(rc *pngChunkReport, ch *store.PNGChunk) *cmp {
	pt := h.f.PNG
	var c cmp
	c.num("start", rc.Start, int64(ch.Off))
	c.num("end", rc.End, int64(ch.Off+12+len(ch.Data)))
	c.num("length", rc.Len, int64(len(ch.Data)))
	c.str("type", rc.Type, ch.Type)
	c.num("crc", rc.Crc, int64(ch.CRC))
	c.hex("chunk bytes", rc.Raw, h.f.Data[ch.Off:ch.Off+12+len(ch.Data)])
	switch ch.Type {
	case "IHDR":
		c.num("width", rc.Width, int64(pt.Width))
		c.num("height", rc.Height, int64(pt.Height))
		c.num("bit_depth", rc.Bit_depth, int64(pt.BitDepth))
		c.num("color_type", rc.Color_type, int64(pt.ColorType))
		c.num("compression_method", rc.Compression, 0)
		c.num("filter_method", rc.Filter, 0)
		c.num("interlace_method", rc.Interlace, 0)
	case "PLTE":
		ok := len(rc.Palette) == len(pt.Palette)
		for i := 0; ok && i < len(pt.Palette); i++ {
			e := rc.Palette[i]
			ok = len(e) == 3 && numIs(e[0], int64(pt.Palette[i][0])) && numIs(e[1], int64(pt.Palette[i][1])) && numIs(e[2], int64(pt.Palette[i][2]))
		}
		c.add("palette", ok, rc.Palette, pt.Palette)
	case "tRNS":
		al, _ := rc.Alphas.([]any)
		ok := len(al) == len(pt.Alphas)
		for i := 0; ok && i < len(al); i++ {
			ok = numIs(al[i], int64(pt.Alphas[i]))
		}
		c.add("alphas", ok, rc.Alphas, pt.Alphas)
	case "tEXt":
		c.str("keyword", rc.Keyword, ch.Keyword)
		c.str("text", rc.Text, ch.Text)
	case "zTXt":
		c.str("keyword", rc.Keyword, ch.Keyword)
		c.num("compression_method", rc.Compression, 0)
		c.str("uncompressed.text", rc.Ztext, ch.Text)
	case "IDAT":
		c.hex("data", rc.Data, ch.Data)
	}
	return &c
}

func (h *storeRun) checkPNG(r *pngReport) {
	pt := h.f.PNG
	if !h.faulted() {
		if r.Err != nil {
			h.intactFailure("decode error: " + str(r.Err))
			return
		}
		if len(r.Chunks) != len(pt.Chunks) {
			h.violate("field-mismatch", "png:chunk-count", "fq shows %d chunks, %d were stored", len(r.Chunks), len(pt.Chunks))
			return
		}
		if str(r.Sig) != "valid" {
			h.violate("field-mismatch", "png:signature", "signature description %v", r.Sig)
		}
		var idat []byte
		for i := range r.Chunks {
			rc, ch := &r.Chunks[i], &pt.Chunks[i]
			c := h.pngCompare(rc, ch)
			switch {
			case c.has("data") || c.has("uncompressed.text") || c.has("chunk bytes"):
				h.violate("payload-mismatch", "png:"+ch.Type, "chunk %d: %s", i, c.String())
			case len(c.diffs) > 0:
				h.violate("field-mismatch", "png:"+ch.Type+":"+c.names[0], "chunk %d: %s", i, c.String())
			}
			if str(rc.Crc_desc) != "valid" {
				h.violate("checksum-not-valid-on-intact", "png:crc", "chunk %d (%s): crc description %v", i, ch.Type, rc.Crc_desc)
			}
			if ch.Type == "IDAT" {
				b, _ := unhex(rc.Data)
				idat = append(idat, b...)
				h.res.Probes["png_idat"]++
			}
			if ch.Type == "zTXt" {
				h.res.Probes["png_ztxt_inflated"]++
			}
		}
		// the zlib stream fq exposes inflates and unfilters to the pixels put in
		if msg := pt.CheckIDAT(idat); msg != "" && len(h.res.Violations) == 0 {
			h.violate("payload-mismatch", "png:IDAT-pixels", "%s", msg)
		}
		return
	}
	ihdrOK := len(r.Chunks) > 0 && len(pt.Chunks) > 0 && str(r.Chunks[0].Crc_desc) == "valid" && hexIs(r.Chunks[0].Raw, h.f.Data[8:33])
	for j := range r.Chunks {
		rc := &r.Chunks[j]
		var ch *store.PNGChunk
		ci := -1
		for i := range pt.Chunks {
			if pt.Chunks[i].Off == int(rc.Start) {
				ch, ci = &pt.Chunks[i], i
			}
		}
		valid := str(rc.Crc_desc) == "valid"
		if rc.Crc_desc != nil && !valid {
			h.invalidShown = true
		}
		if ch == nil {
			h.mismatches++
			if valid {
				h.violate("clean-wrong-result", "png:phantom-chunk", "chunk %d at %v with a valid crc was never stored", j, rc.Start)
			}
			continue
		}
		if raw, ok := unhex(rc.Raw); ok && valid && (len(raw) < 12 || !numIs(rc.Crc, int64(crc32.ChecksumIEEE(raw[4:len(raw)-4])))) {
			// "valid" says the stored crc is the crc of the type and data shown
			h.violate("clean-wrong-result", "png:crc-valid-but-differs", "chunk %d: crc %v is marked valid but is not the crc of the chunk's type and data as shown", ci, rc.Crc)
		}
		c := h.pngCompare(rc, ch)
		if h.beforeCut(ch.Off + 12 + len(ch.Data)) {
			h.res.Extra["prefix_member_checked"]++
			if len(c.diffs) > 0 || !valid {
				h.violate("clean-wrong-result", "png:chunk-before-cut", "chunk %d lies in front of the cut (crc %v): %s", ci, rc.Crc_desc, c.String())
			}
			continue
		}
		if len(c.diffs) == 0 {
			continue
		}
		h.mismatches++
		// the crc covers type and data (and so every decoded field); the length
		// field is covered by nothing. How tRNS is read depends on the colour
		// type of IHDR: when that chunk is not shown valid and equal, a tRNS
		// whose bytes are right may be shown undecoded.
		if ch.Type == "tRNS" && !ihdrOK && c.only("alphas") {
			h.res.Extra["dependent_difference_accepted"]++
			continue
		}
		if valid && !c.only("length", "end") {
			h.violate("clean-wrong-result", "png:"+ch.Type, "chunk %d is shown with a valid crc but: %s", ci, c.String())
		}
	}
}

// ---------------------------------------------------------------------------
// gif

type gifBlockReport struct {
	Start, End                                            float64
	Intro, Fc, Sep, Left, Top, Width, Height, Lcm_follows any
	Interlaced, Ibits, Code_size, Lcm                     any
	Ext, Data                                             []any
}

type gifReport struct {
	Err                                                  any
	Header, Width, Height, Gcp, Bit_depth, Black, Aspect any
	Gcm                                                  any
	Blocks                                               []gifBlockReport
	Term                                                 any
}

func colorMapIs(v any, tab [][3]byte, padded int) bool {
	l, ok := v.([]any)
	if !ok || len(l) != padded {
		return false
	}
	for i := range l {
		e, ok := l[i].([]any)
		if !ok || len(e) != 3 {
			return false
		}
		var want [3]byte
		if i < len(tab) {
			want = tab[i]
		}
		for k := 0; k < 3; k++ {
			if !numIs(e[k], int64(want[k])) {
				return false
			}
		}
	}
	return true
}

func catHex(l []any) ([]byte, bool) {
	var out []byte
	for _, x := range l {
		b, ok := unhex(x)
		if !ok {
			return nil, false
		}
		out = append(out, b...)
	}
	return out, true
}

func (h *storeRun) checkGIF(r *gifReport) {
	gt := h.f.GIF
	// expected block list: the layout the writer node read off the stored bytes
	exp := gt.Blocks
	firstLocal := -1
	for i, fr := range gt.Frames {
		if fr.Local != nil && firstLocal < 0 {
			firstLocal = i
		}
	}
	strict := !h.faulted()
	var c, hc cmp // c: what comes after the blocks; hc: what comes in front of them
	if strict {
		if r.Err != nil {
			h.intactFailure("decode error: " + str(r.Err))
			return
		}
		c.num("blocks|length", float64(len(r.Blocks)), int64(len(exp)))
		c.num("terminator", r.Term, 0x3b)
	}
	if strict || h.beforeCut(gt.HeaderEnd) {
		hc.str("header", r.Header, "GIF89a")
		hc.num("width", r.Width, int64(gt.Width))
		hc.num("height", r.Height, int64(gt.Height))
		hc.num("gcp_follows", r.Gcp, 1)
		hc.num("black_color", r.Black, int64(gt.Background))
		hc.num("pixel_aspect_ratio", r.Aspect, 0)
		hc.add("global_color_map", colorMapIs(r.Gcm, gt.Global, gt.GlobalPadded), r.Gcm, fmt.Sprintf("%d entries", gt.GlobalPadded))
	}
	if len(hc.diffs) > 0 {
		h.violate("field-mismatch", "gif:"+hc.names[0], "%s", hc.String())
		return
	}
	if len(c.diffs) > 0 && firstLocal < 0 {
		h.violate("field-mismatch", "gif:"+c.names[0], "%s", c.String())
		return
	}
	for j := range r.Blocks {
		rb := &r.Blocks[j]
		if j >= len(exp) {
			break
		}
		if !strict && !(h.beforeCut(exp[j].End) && int(rb.Start) == exp[j].Start) {
			// GIF stores no checksums: after a fault nothing that is reported can be held against fq
			continue
		}
		if !strict {
			h.res.Extra["prefix_member_checked"]++
		}
		var c cmp
		w := exp[j]
		c.num("start", rb.Start, int64(w.Start))
		c.num("end", rb.End, int64(w.End))
		switch w.Kind {
		case "loop":
			ext, _ := catHex(rb.Ext)
			c.num("introducer", rb.Intro, 0x21)
			c.num("function_code", rb.Fc, 0xff)
			lc := make([]byte, 2)
			binary.LittleEndian.PutUint16(lc, uint16(gt.LoopCount))
			c.add("application data", bytes.Equal(ext, append([]byte("NETSCAPE2.0\x01"), lc...)), fmt.Sprintf("%x", ext), "NETSCAPE2.0 01 "+fmt.Sprintf("%x", lc))
		case "gce":
			fr := &gt.Frames[w.Frame]
			ext, _ := catHex(rb.Ext)
			wantb := []byte{byte(fr.Disposal << 2), byte(fr.Delay), byte(fr.Delay >> 8), 0}
			if fr.Transparent >= 0 {
				wantb[0] |= 1
				wantb[3] = byte(fr.Transparent)
			}
			c.num("introducer", rb.Intro, 0x21)
			c.num("function_code", rb.Fc, 0xf9)
			c.add("graphic control data", bytes.Equal(ext, wantb), fmt.Sprintf("%x", ext), fmt.Sprintf("%x", wantb))
		case "image":
			fr := &gt.Frames[w.Frame]
			c.num("separator_character", rb.Sep, 0x2c)
			c.num("left", rb.Left, int64(fr.Left))
			c.num("top", rb.Top, int64(fr.Top))
			c.num("width", rb.Width, int64(fr.W))
			c.num("height", rb.Height, int64(fr.H))
			c.num("local_color_map_follows", rb.Lcm_follows, hstoreB2i(fr.Local != nil))
			c.num("image_interlaced", rb.Interlaced, 0)
			c.num("code_size", rb.Code_size, int64(fr.LitWidth))
			if fr.Local != nil {
				c.add("local_color_map", colorMapIs(rb.Lcm, fr.Local, fr.LocalPadded), rb.Lcm, fmt.Sprintf("%d entries", fr.LocalPadded))
			} else {
				c.add("local_color_map", rb.Lcm == nil, rb.Lcm, nil)
			}
			data, _ := catHex(rb.Data)
			pix, err := store.GIFUnLZW(data, fr.LitWidth, fr.W*fr.H)
			c.add("image data", err == nil && bytes.Equal(pix, fr.Pix), fmt.Sprintf("%d bytes of LZW data, %v", len(data), err), fmt.Sprintf("%d pixels", len(fr.Pix)))
		}
		if len(c.diffs) == 0 {
			continue
		}
		if firstLocal >= 0 && w.Frame >= firstLocal && w.Kind == "image" || firstLocal >= 0 && w.Frame > firstLocal {
			h.violate("field-mismatch", "gif:local-color-table", "frame %d has a local colour table; block %d (%s of frame %d): %s", firstLocal, j, w.Kind, w.Frame, c.String())
			return
		}
		if w.Kind == "image" && c.has("image data") {
			h.violate("payload-mismatch", "gif:image-data", "block %d (frame %d): %s", j, w.Frame, c.String())
		} else {
			h.violate("field-mismatch", "gif:"+w.Kind+":"+c.names[0], "block %d (frame %d): %s", j, w.Frame, c.String())
		}
		return
	}
	if len(c.diffs) > 0 {
		if firstLocal >= 0 {
			h.violate("field-mismatch", "gif:local-color-table", "frame %d has a local colour table: %s", firstLocal, c.String())
		} else {
			h.violate("field-mismatch", "gif:"+c.names[0], "%s", c.String())
		}
	}
}

// ---------------------------------------------------------------------------
// wav

type wavChunkReport struct {
	Start, End                                               float64
	Id, Size, Audio_format, Channels, Sample_rate, Byte_rate any
	Block_align, Bits, Samples, Type                         any
	Sub                                                      []struct{ Id, Size, Value any }
}

type wavReport struct {
	Err              any
	Id, Size, Format any
	Chunks           []wavChunkReport
}

func (h *storeRun) checkWAV(r *wavReport) {
	wt := h.f.WAV
	strict := !h.faulted()
	var c cmp
	if strict {
		if r.Err != nil {
			h.intactFailure("decode error: " + str(r.Err))
			return
		}
		n := 2
		if wt.Software != "" {
			n = 3
		}
		c.num("chunks|length", float64(len(r.Chunks)), int64(n))
	}
	if strict {
		// (in a torn file the RIFF size always exceeds what is left)
		c.str("id", r.Id, "RIFF")
		c.num("size", r.Size, int64(wt.RiffSize))
		c.str("format", r.Format, "WAVE")
	}
	for j := range r.Chunks {
		rc := &r.Chunks[j]
		ends := []int{36, wt.ListOff, len(h.f.Data)}
		if j >= len(ends) {
			break
		}
		if !strict && !h.beforeCut(ends[j]) {
			// WAV stores no checksums
			continue
		}
		if !strict {
			h.res.Extra["prefix_member_checked"]++
		}
		p := fmt.Sprintf("chunks[%d].", j)
		switch j {
		case 0:
			c.str(p+"id", rc.Id, "fmt")
			c.num(p+"size", rc.Size, 16)
			c.num(p+"audio_format", rc.Audio_format, int64(wt.AudioFormat))
			c.num(p+"num_channels", rc.Channels, int64(wt.Channels))
			c.num(p+"sample_rate", rc.Sample_rate, int64(wt.SampleRate))
			c.num(p+"byte_rate", rc.Byte_rate, int64(wt.ByteRate))
			c.num(p+"block_align", rc.Block_align, int64(wt.BlockAlign))
			c.num(p+"bits_per_sample", rc.Bits, int64(wt.BitsPerSample))
		case 1:
			c.str(p+"id", rc.Id, "data")
			c.num(p+"size", rc.Size, int64(len(wt.Samples)))
			c.num(p+"start", rc.Start, 36)
			if len(wt.Samples) == 0 && rc.Samples == nil {
				break
			}
			c.hex(p+"samples", rc.Samples, wt.Samples)
		case 2:
			c.str(p+"id", rc.Id, "LIST")
			c.str(p+"type", rc.Type, "INFO")
			c.num(p+"start", rc.Start, int64(wt.ListOff))
			if len(rc.Sub) != 1 {
				c.add(p+"chunks|length", false, len(rc.Sub), 1)
			} else {
				c.str(p+"chunks[0].id", rc.Sub[0].Id, "ISFT")
				c.str(p+"chunks[0].value", rc.Sub[0].Value, wt.Software)
			}
		}
	}
	if len(c.diffs) == 0 {
		return
	}
	if c.has("chunks[1].samples") {
		h.violate("payload-mismatch", "wav:samples", "%s", c.String())
	} else {
		h.violate("field-mismatch", "wav:"+c.names[0], "%s", c.String())
	}
}
