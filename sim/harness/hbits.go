package harness

import (
	"bytes"
	"crypto/md5"
	"encoding/base64"
	"encoding/hex"
	"encoding/json"
	"fmt"
	"strings"

	"github.com/wader/fq/zzverif/sim/core"
	"github.com/wader/fq/zzverif/sim/corpus"
	"github.com/wader/fq/zzverif/sim/model"
	"github.com/wader/fq/zzverif/sim/simos"
)

// H-SYS / C05 and the system tier of C01 (DESIGN §3 C05, C01). Real: the whole
// of fq; the file is read lazily through the real stack
// ctxreadseeker -> progressreadseeker -> aheadreadseeker -> IOBitReadSeeker
// with small cache/precision knobs, so what tobytes/tobits return depends on
// cache state, earlier reads and how the simulated disk behaves. Oracle: bits
// cut from the stored file by the harness.

func init() { core.Register(&hbits{}) }

type hbits struct{}

func (*hbits) Name() string { return "hbits" }

var bitsFormats = []string{"hex", "base64", "md5", "snippet", "byte_array", "truncate", "string"}
var aheadKnobs = []int{1, 7, 64, 4096, 512 * 1024}
var precKnobs = []int{1, 16, 1024}

const listProg = `limit(%d; .. | select(_is_decode_value?) | [._path, ._start, ._stop, (._buffer_root | ._path), (try (tobytes | tovalue) catch {err: .}), (try (tobits | tovalue) catch {err: .}), (try (tobytes | to_hex) catch null)] | tojson)`

func expectedRendering(bf string, bits model.Bits, leftPad bool) (any, bool) {
	var b []byte
	if leftPad {
		pad := (8 - len(bits)%8) % 8
		b = model.Concat(model.Zeros(int64(pad)), bits).Bytes()
	} else {
		b = bits.Bytes() // right padded
	}
	switch bf {
	case "hex":
		return hex.EncodeToString(b), true
	case "base64":
		return base64.StdEncoding.EncodeToString(b), true
	case "md5":
		s := md5.Sum(b)
		return hex.EncodeToString(s[:]), true
	case "snippet":
		c := b
		if len(c) > 256 {
			c = c[:256]
		}
		return base64.StdEncoding.EncodeToString(c), true
	case "byte_array":
		out := make([]any, len(b))
		for i, x := range b {
			out[i] = float64(x)
		}
		return out, true
	case "truncate":
		c := b
		if len(c) > 1024 {
			c = c[:1024]
		}
		return jsonString(c), true
	case "string":
		return jsonString(b), true
	}
	return nil, false
}

// jsonString is what a JSON round trip makes of a byte string: invalid UTF-8
// becomes U+FFFD.
func jsonString(b []byte) string {
	return strings.ToValidUTF8(string(b), "�")
}

func normRendering(bf string, v any) any {
	switch bf {
	case "snippet":
		if s, ok := v.(string); ok {
			if i := strings.IndexByte(s, '>'); i >= 0 {
				return s[i+1:]
			}
		}
	case "truncate", "string":
		if s, ok := v.(string); ok {
			return collapseFFFD(s)
		}
	}
	return v
}

// collapseFFFD makes runs of replacement characters comparable: encoders
// differ in whether an invalid sequence becomes one or several U+FFFD.
func collapseFFFD(s string) string {
	var sb strings.Builder
	prev := false
	for _, r := range s {
		if r == '�' {
			if !prev {
				sb.WriteRune(r)
			}
			prev = true
			continue
		}
		prev = false
		sb.WriteRune(r)
	}
	return sb.String()
}

func (*hbits) Run(rc *core.RunCtx) *core.RunResult {
	res := core.NewResult()
	t := rc.T
	samples := corpus.MaxSize(24 * 1024)
	if len(samples) == 0 {
		res.Violate("HARNESS", "no-corpus", "hbits", "no samples harvested from the working tree")
		return res
	}
	s := samples[t.Intn(len(samples))]
	data := corpus.Data(s)
	errorsCfg := rc.Config == "errors"
	prop := rc.PropOr("C05", "C01") // as the system tier of C01 the same oracle reports under C01
	bf := bitsFormats[t.Intn(len(bitsFormats))]
	mode := t.Intn(10) // 0..4 listing, 5 raw root, 6 raw path, 7 listing with many values, 8..9 batch conversion
	knobs := map[string]int{"cacheReadAheadSize": aheadKnobs[t.Intn(len(aheadKnobs))], "progressPrecision": precKnobs[t.Intn(len(precKnobs))]}
	o := simos.New(t)
	o.Disk.Benign = true
	o.Disk.Errors = errorsCfg
	o.AddFile("sample", simos.Regular, data)
	args := []string{"fq"}
	if s.Format != "" {
		args = append(args, "-d", s.Format)
	}
	for _, kv := range s.Opts {
		args = append(args, "-o", kv)
	}
	limit := 120
	if mode == 7 {
		limit = 1500
	}
	var prog string
	twice := false
	switch mode {
	case 5:
		prog = "tobytes"
		if t.Intn(2) == 0 {
			prog = "tobytes, tobytes" // the same whole-buffer binary written twice: both copies complete
			twice = true
		}
	case 6:
		prog = `first(.. | select(_is_decode_value? and (._buffer_root | ._path) == [] and ._stop > ._start and (._start % 8) == 0 and (._stop %% 8) == 0 and ._start > 0)) | tobytes`
		prog = strings.ReplaceAll(prog, "%%", "%")
	case 8, 9:
		// one conversion of many values (shared resolved options) against one conversion per value
		prog = `[limit(80; .. | select(_is_decode_value? and _is_scalar?))] | {batch: tovalue, single: map(tovalue)} | tojson`
	default:
		prog = fmt.Sprintf(listProg, limit)
	}
	args = append(args, "-o", "bits_format="+bf, "-r", prog, "sample")
	o.ArgsV = args
	run := runFQ(t, o, fqOpts{Policy: -1, Knobs: knobs, Fine: t.Intn(4) == 0})
	run.account(res, o)
	res.Fingerprint = fnv64(run.Stats.Fingerprint, []byte(s.Rel+s.Format+bf))
	res.Sample = map[string]any{"sample": s.Rel, "format": s.Format, "bits_format": bf, "mode": mode, "knobs": fmt.Sprint(knobs), "policy": run.Stats.Policy, "exit": run.Res.Exit, "disk_calls": o.Disk.Calls}
	res.Probes["disk_calls"] += o.Disk.Calls
	what := fmt.Sprintf("fq %s (%s)", strings.Join(args[1:], " "), s.Rel)
	if !run.abnormal(res, prop, what) {
		return res
	}
	viol := func(oracle, key, f string, a ...any) {
		res.Violate(prop, oracle, key, fmt.Sprintf(f, a...)+"\n  "+what+fmt.Sprintf("\n  knobs %v policy %s exit %d stderr %q", knobs, run.Stats.Policy, run.Res.Exit, firstN(string(run.Res.Stderr), 300)))
		if res.Trace == nil {
			res.Trace = run.Trace
		}
	}
	failed := run.Res.Exit != 0
	faulted := o.Disk.Fired()
	if failed && !faulted {
		// the sample does not decode with this format on a perfect disk: nothing to compare
		res.Probes["sample_not_decodable"]++
		return res
	}
	if faulted {
		res.Probes["runs_with_error_fault"]++
	}
	fileBits := model.FromBytes(data, int64(len(data))*8)
	switch mode {
	case 5:
		res.Nontrivial = true
		if twice {
			data = append(append([]byte(nil), data...), data...)
		}
		if faulted {
			if failed && bytes.HasPrefix(data, run.Res.Stdout) {
				return res
			}
		}
		if !bytes.Equal(run.Res.Stdout, data) {
			viol("raw-root-differs", "tobytes", "raw tobytes of the root wrote %d bytes that differ from the %d stored bytes (first difference at %d)", len(run.Res.Stdout), len(data), firstDiff(run.Res.Stdout, data))
		}
		return res
	case 6:
		if len(run.Res.Stdout) == 0 {
			return res
		}
		res.Nontrivial = true
		// some aligned sub-range of the file, not at its start
		if !faulted && !bytes.Contains(data[1:], run.Res.Stdout) {
			viol("raw-value-differs", "tobytes", "raw tobytes of a byte aligned value wrote %d bytes that occur nowhere in the stored file", len(run.Res.Stdout))
		}
		return res
	}
	if mode >= 8 {
		if failed {
			return res
		}
		var bs struct {
			Batch  []any `json:"batch"`
			Single []any `json:"single"`
		}
		if err := json.Unmarshal(run.Res.Stdout, &bs); err != nil {
			if !faulted {
				viol("bad-listing", "batch-parse", "batch conversion output does not parse: %v: %q", err, firstN(string(run.Res.Stdout), 200))
			}
			return res
		}
		res.Nontrivial = len(bs.Batch) > 1
		res.Probes["batch_values_checked"] += len(bs.Batch)
		if len(bs.Batch) != len(bs.Single) {
			viol("batch-differs", bf, "converting %d values in one call gives %d values", len(bs.Single), len(bs.Batch))
			return res
		}
		for i := range bs.Batch {
			if !jsonEqual(bs.Batch[i], bs.Single[i]) {
				viol("batch-differs", bf, "value %d of a list converted in one call is rendered as %s, converted on its own as %s (bits_format %s)", i, firstN(fmt.Sprint(bs.Batch[i]), 160), firstN(fmt.Sprint(bs.Single[i]), 160), bf)
				return res
			}
		}
		return res
	}
	lines := strings.Split(string(run.Res.Stdout), "\n")
	checked := 0
	nested := map[string]model.Bits{}
	for li, line := range lines {
		if line == "" {
			continue
		}
		var row []any
		if err := json.Unmarshal([]byte(line), &row); err != nil || len(row) != 7 {
			if faulted && li == len(lines)-1 {
				break // a cut last line after an injected error
			}
			viol("bad-listing", "parse", "line %d of the listing does not parse: %q", li, firstN(line, 200))
			return res
		}
		start, ok1 := row[1].(float64)
		stop, ok2 := row[2].(float64)
		rootPath, _ := row[3].([]any)
		if !ok1 || !ok2 {
			viol("bad-listing", "range", "line %d has no numeric range: %q", li, firstN(line, 200))
			return res
		}
		pathJSON, _ := json.Marshal(row[0])
		rootJSON, _ := json.Marshal(rootPath)
		if len(rootPath) != 0 {
			// a value inside a nested buffer (decompressed, reassembled): the nested root's own
			// tobytes (its whole buffer, listed before its children) is the reference - self
			// consistency across two evaluations; the independent check of nested content is C15's
			hx, hasHex := row[6].(string)
			if string(pathJSON) == string(rootJSON) {
				if hasHex && int64(stop-start)%8 == 0 {
					if b, err := hex.DecodeString(hx); err == nil && int64(len(b))*8 == int64(stop-start) {
						nested[string(rootJSON)] = model.FromBytes(b, int64(len(b))*8)
					}
				}
				continue
			}
			nb, ok := nested[string(rootJSON)]
			if !ok || !hasHex {
				res.Probes["nested_buffer_values_skipped"]++
				continue
			}
			if start < 0 || stop < start || int64(stop) > int64(len(nb)) {
				viol("range-outside-input", "nested-range", "value %v reports range %v..%v outside its nested buffer of %d bits", row[0], start, stop, len(nb))
				return res
			}
			wantHex, _ := expectedRendering("hex", nb.Slice(int64(start), int64(stop)), true)
			if hx != wantHex {
				viol("bits-differ", "tobytes:nested", "value %v range %v..%v inside nested buffer %s: tobytes is %s, the nested buffer's own bytes give %s", row[0], start, stop, rootJSON, firstN(hx, 160), firstN(fmt.Sprint(wantHex), 160))
				return res
			}
			res.Probes["nested_values_checked"]++
			continue
		}
		if faulted && (start < 0 || stop < start || int64(stop) > int64(len(fileBits))) {
			// after an injected read error a decoder may have worked on what it got: the
			// structure of such trees is C03's business (ioFailed there), not compared here
			res.Probes["range_outside_input_after_fault"]++
			continue
		}
		if start < 0 || stop < start || int64(stop) > int64(len(fileBits)) {
			viol("range-outside-input", "range", "value %v reports range %v..%v outside the %d input bits", row[0], start, stop, len(fileBits))
			return res
		}
		bits := fileBits.Slice(int64(start), int64(stop))
		if len(bits)%8 != 0 {
			res.Probes["unaligned_values"]++
		}
		for k, leftPad := range []bool{true, false} {
			got := row[4+k]
			if m, isErr := got.(map[string]any); isErr {
				if e, has := m["err"]; has {
					if es, _ := e.(string); strings.Contains(es, "synthetic value") {
						// a synthetic value has no bits of the input behind it
						res.Probes["synthetic_values_skipped"]++
						continue
					}
					if faulted {
						res.Probes["value_failed_after_fault"]++
						continue
					}
					viol("conversion-failed", []string{"tobytes", "tobits"}[k], "value %v (%v..%v): %s failed without any fault: %v", row[0], start, stop, []string{"tobytes", "tobits"}[k], m["err"])
					return res
				}
			}
			want, _ := expectedRendering(bf, bits, leftPad)
			g := normRendering(bf, got)
			w := normRendering(bf, want)
			if bf == "snippet" {
				w = want // already without prefix
			}
			if !jsonEqual(g, w) {
				viol("bits-differ", []string{"tobytes", "tobits"}[k]+":"+bf, "value %v range %v..%v: %s rendered as %s is %s, the input bits give %s", row[0], start, stop, []string{"tobytes", "tobits"}[k], bf, firstN(fmt.Sprint(got), 200), firstN(fmt.Sprint(want), 200))
				return res
			}
		}
		checked++
	}
	res.Probes["values_checked"] += checked
	res.Nontrivial = checked > 0
	return res
}

func jsonEqual(a, b any) bool {
	ja, _ := json.Marshal(a)
	jb, _ := json.Marshal(b)
	return bytes.Equal(ja, jb)
}

func firstDiff(a, b []byte) int {
	n := len(a)
	if len(b) < n {
		n = len(b)
	}
	for i := 0; i < n; i++ {
		if a[i] != b[i] {
			return i
		}
	}
	return n
}
