// Package simrt is the deterministic simulation runtime shared by the
// instrumented fq sources and the harnesses. It is injected into the fq module
// as github.com/wader/fq/internal/simrt with a build overlay (see sim/instr).
//
// Rules for this package (race mode, DESIGN §2.6): all shared state is touched
// only from //go:norace functions, using fixed arrays and plain words; no
// maps, no append, no sync/atomic, own PRNG; never a real clock.
package simrt

// Tape is the single source of every choice a run makes.
type Tape struct {
	rng     uint64
	replay  []int32
	isRepl  bool
	rec     []int32
	pos     int
	Overrun bool
}

const tapeCap = 1 << 20

var tapeBuf = make([]int32, tapeCap)

// NewTape returns a tape that draws lazily from a splitmix64 stream.
func NewTape(seed uint64) *Tape {
	return &Tape{rng: seed, rec: tapeBuf}
}

// NewReplayTape returns a tape that replays recorded choices; an exhausted
// tape yields 0 (the simplest choice).
func NewReplayTape(choices []int32) *Tape {
	return &Tape{replay: choices, isRepl: true, rec: tapeBuf}
}

// Mix derives a run seed from parts.
func Mix(parts ...uint64) uint64 {
	h := uint64(0x9e3779b97f4a7c15)
	for _, p := range parts {
		h ^= p + 0x9e3779b97f4a7c15 + (h << 6) + (h >> 2)
		h = splitmix(&h)
	}
	return h
}

//go:norace
func splitmix(s *uint64) uint64 {
	*s += 0x9e3779b97f4a7c15
	z := *s
	z = (z ^ (z >> 30)) * 0xbf58476d1ce4e5b9
	z = (z ^ (z >> 27)) * 0x94d049bb133111eb
	return z ^ (z >> 31)
}

// Intn returns a choice in [0,n). n < 1 is treated as 1.
//
//go:norace
func (t *Tape) Intn(n int) int {
	if n < 1 {
		n = 1
	}
	var v int
	if t.isRepl {
		if t.pos < len(t.replay) {
			v = int(t.replay[t.pos])
			if v < 0 {
				v = -v
			}
			if v >= n {
				v = v % n
			}
		}
	} else {
		v = int(splitmix(&t.rng) % uint64(n))
	}
	if t.pos < len(t.rec) {
		t.rec[t.pos] = int32(v)
	} else {
		t.Overrun = true
	}
	t.pos++
	return v
}

// Bool is true with probability num/den.
//
//go:norace
func (t *Tape) Bool(num, den int) bool {
	return t.Intn(den) < num
}

// Range returns a choice in [lo,hi].
//
//go:norace
func (t *Tape) Range(lo, hi int) int {
	if hi < lo {
		return lo
	}
	return lo + t.Intn(hi-lo+1)
}

// Pos is the number of choices drawn so far.
//
//go:norace
func (t *Tape) Pos() int { return t.pos }

// Recorded returns a copy of the choices drawn so far.
//
//go:norace
func (t *Tape) Recorded() []int32 {
	n := t.pos
	if n > len(t.rec) {
		n = len(t.rec)
	}
	out := make([]int32, n)
	copy(out, t.rec[:n])
	return out
}
