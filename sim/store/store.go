// Package store holds the "writer nodes" of H-STORE (DESIGN §3 C15): they
// produce container files from tape-generated contents with the Go standard
// library writers (compress/gzip, archive/zip, archive/tar, image/png,
// image/gif) and a hand-written 44-byte-header WAV writer, and return the file
// bytes together with a ground-truth description of what was put in and of
// where the checksummed regions and the stored checksums lie.
//
// Everything is a deterministic function of the choices drawn from Gen (the
// choice tape): no clock, no global PRNG, no map iteration, no goroutines.
package store

import (
	"fmt"
	"strings"
)

// Gen is the source of every choice (satisfied by *simrt.Tape).
type Gen interface {
	Intn(n int) int
	Range(lo, hi int) int
	Bool(num, den int) bool
}

// Region kinds.
const (
	KPayload  = "payload"  // member payload bytes as stored (compressed or not)
	KChecksum = "checksum" // a stored checksum field
	KHeader   = "header"   // member header bytes
	KMeta     = "meta"     // archive level structure (directory, end records, signatures)
	KPadding  = "padding"
	KLength   = "length" // a stored length that doubles as a check (gzip ISIZE)
)

// Region describes a byte range [Start,End) of the file.
type Region struct {
	Start, End int
	Member     int    // member index, -1 = archive level
	Kind       string // K* above
	Check      string // stored checksum covering these bytes ("" = none); for KChecksum the checksum's own name
}

// File is one stored object plus its ground truth.
type File struct {
	Format  string // gzip | zip | tar | png | gif | wav
	Name    string // file name on the simulated disk
	Data    []byte
	Regions []Region
	Note    string // short human readable description

	Gzip *GzipTruth
	Zip  *ZipTruth
	Tar  *TarTruth
	PNG  *PNGTruth
	GIF  *GIFTruth
	WAV  *WAVTruth

	// SelfCheck is non-empty when the writer's own consistency checks failed
	// (a harness bug, never a property violation).
	SelfCheck string
}

func (f *File) region(start, end, member int, kind, check string) {
	if end <= start {
		return
	}
	f.Regions = append(f.Regions, Region{start, end, member, kind, check})
}

// RegionAt returns the first region that contains off (nil if none).
func (f *File) RegionAt(off int) *Region {
	for i := range f.Regions {
		if off >= f.Regions[i].Start && off < f.Regions[i].End {
			return &f.Regions[i]
		}
	}
	return nil
}

func (f *File) fail(format string, a ...any) {
	if f.SelfCheck == "" {
		f.SelfCheck = fmt.Sprintf(format, a...)
	}
}

// Formats lists the writer nodes.
var Formats = []string{"gzip", "zip", "tar", "png", "gif", "wav"}

// Write draws one file of the given format.
func Write(g Gen, format string) *File {
	switch format {
	case "gzip":
		return WriteGzip(g)
	case "zip":
		return WriteZip(g)
	case "tar":
		return WriteTar(g)
	case "png":
		return WritePNG(g)
	case "gif":
		return WriteGIF(g)
	case "wav":
		return WriteWAV(g)
	}
	return nil
}

// ---------------------------------------------------------------------------
// content generators

// prng is a splitmix64 stream seeded from tape draws: bulk bytes are a
// deterministic expansion of a few choices, so that tapes stay short.
type prng uint64

func newPrng(g Gen) *prng {
	p := prng(uint64(g.Intn(1<<30))<<20 ^ uint64(g.Intn(1<<20)))
	return &p
}

func (p *prng) next() uint64 {
	*p += 0x9e3779b97f4a7c15
	z := uint64(*p)
	z = (z ^ (z >> 30)) * 0xbf58476d1ce4e5b9
	z = (z ^ (z >> 27)) * 0x94d049bb133111eb
	return z ^ (z >> 31)
}

func (p *prng) fill(b []byte) {
	for i := 0; i < len(b); i += 8 {
		v := p.next()
		for j := 0; j < 8 && i+j < len(b); j++ {
			b[i+j] = byte(v >> (8 * j))
		}
	}
}

var words = []string{"the", "quick", "brown", "fox", "jumps", "over", "lazy", "dog", "lorem", "ipsum", "dolor", "sit", "amet", "0123456789", "\n", "\t", "naïve", "日本"}

// Payload draws member contents: empty / incompressible / highly
// compressible / text / mixed / larger than 64 KiB (rare).
func Payload(g Gen) (b []byte, kind string) {
	b, kind = payload(g)
	// boundary sizes: block and window sizes of the containers (tar 512, deflate 32 KiB,
	// zip/gzip 64 KiB fields) are where padding and length arithmetic go wrong
	if len(b) > 0 && g.Intn(6) == 0 {
		sizes := []int{511, 512, 513, 1024, 1536, 255, 256, 4096, 32768, 65535, 65536}
		n := sizes[g.Intn(len(sizes))]
		if n > 4096 && g.Intn(3) != 0 {
			n = sizes[g.Intn(8)]
		}
		nb := make([]byte, n)
		for i := range nb {
			nb[i] = b[i%len(b)]
		}
		return nb, kind + "-boundary-size"
	}
	return b, kind
}

func payload(g Gen) (b []byte, kind string) {
	k := g.Intn(40)
	switch {
	case k < 5:
		return []byte{}, "empty"
	case k < 15:
		b = make([]byte, g.Range(1, 700))
		newPrng(g).fill(b)
		return b, "incompressible"
	case k < 25:
		n := g.Range(1, 4000)
		pat := make([]byte, g.Range(1, 5))
		newPrng(g).fill(pat)
		b = make([]byte, n)
		for i := range b {
			b[i] = pat[i%len(pat)]
		}
		return b, "compressible"
	case k < 34:
		n := g.Range(1, 120)
		p := newPrng(g)
		var sb strings.Builder
		for i := 0; i < n; i++ {
			sb.WriteString(words[p.next()%uint64(len(words))])
			sb.WriteByte(' ')
		}
		return []byte(sb.String()), "text"
	case k < 39:
		p := newPrng(g)
		segs := g.Range(2, 5)
		for i := 0; i < segs; i++ {
			n := g.Range(1, 300)
			seg := make([]byte, n)
			if g.Bool(1, 2) {
				p.fill(seg)
			} else {
				c := byte(p.next())
				for j := range seg {
					seg[j] = c
				}
			}
			b = append(b, seg...)
		}
		return b, "mixed"
	default:
		if g.Intn(3) == 0 {
			// a very long run of one byte: deflate's best case (beyond 1000:1), where guards
			// against decompression bombs and length arithmetic on ratios get exercised
			b = make([]byte, g.Range(700000, 2200000))
			c := byte(g.Intn(256))
			for i := range b {
				b[i] = c
			}
			return b, "huge-run"
		}
		n := g.Range(65537, 90000)
		b = make([]byte, n)
		p := newPrng(g)
		if g.Bool(1, 2) {
			p.fill(b)
			return b, "large-incompressible"
		}
		line := make([]byte, 61)
		p.fill(line)
		for i := range b {
			b[i] = line[i%len(line)]
		}
		return b, "large-compressible"
	}
}

var asciiStems = []string{"a", "file", "data", "README", "img_0001", "x-y_z", "report.final", "Makefile", "notes", "b"}
var asciiExts = []string{"", ".txt", ".bin", ".dat", ".tar.gz", ".c"}
var asciiDirs = []string{"dir", "src", "a", "docs", "very-long-directory-name-0123456789", "x.y"}
var uniStems = []string{"héllo", "日本語", "файл", "emoji-😀", "naïve café", "Ünïcödé", "ελληνικά", "tab le"}

// Name styles.
const (
	NameASCII = iota
	NameUnicode
	NameLong     // 101..250 bytes, with directory separators
	NameVeryLong // > 255 bytes
)

// NameStyle draws a style: mostly ascii.
func NameStyle(g Gen) int {
	switch k := g.Intn(20); {
	case k < 11:
		return NameASCII
	case k < 15:
		return NameUnicode
	case k < 19:
		return NameLong
	default:
		return NameVeryLong
	}
}

func pick(g Gen, l []string) string { return l[g.Intn(len(l))] }

// Name draws a member name of the given style. Names never contain NUL,
// never end in '/' or a space and never start with '/'.
func Name(g Gen, style int) string {
	base := func() string {
		if style == NameUnicode {
			return pick(g, uniStems) + pick(g, asciiExts)
		}
		return pick(g, asciiStems) + pick(g, asciiExts)
	}
	switch style {
	case NameASCII, NameUnicode:
		s := ""
		for d := g.Intn(3); d > 0; d-- {
			if style == NameUnicode && g.Bool(1, 2) {
				s += pick(g, uniStems) + "/"
			} else {
				s += pick(g, asciiDirs) + "/"
			}
		}
		return s + base() + fmt.Sprintf("%d", g.Intn(10))
	case NameLong, NameVeryLong:
		lo, hi := 101, 250
		if style == NameVeryLong {
			lo, hi = 256, 400
		}
		want := g.Range(lo, hi)
		uni := g.Bool(1, 5)
		s := ""
		for len(s) < want {
			seg := pick(g, asciiDirs)
			if uni && g.Bool(1, 3) {
				seg = pick(g, uniStems)
			}
			if g.Bool(1, 4) {
				// one long unsplittable segment
				seg += strings.Repeat("z", g.Range(10, 120))
			}
			s += seg + "/"
		}
		return s + base()
	}
	return "a"
}

// IsASCII reports whether s is 7-bit.
func IsASCII(s string) bool {
	for i := 0; i < len(s); i++ {
		if s[i] >= 0x80 {
			return false
		}
	}
	return true
}

// Summary is a short description of a payload for samples.
func Summary(b []byte) string {
	if len(b) <= 16 {
		return fmt.Sprintf("%d:%x", len(b), b)
	}
	return fmt.Sprintf("%d:%x..", len(b), b[:16])
}
