// storedump writes files produced by the H-STORE writer nodes to a directory,
// for looking at them with a stock fq binary:
//
//	storedump -format zip -seed 7 -n 20 -dir /tmp/x
//
// The choices come from a local splitmix64 stream (not the simulation tape):
// this is an exploration aid, not part of any check.
package main

import (
	"encoding/json"
	"flag"
	"fmt"
	"os"
	"path/filepath"

	"github.com/wader/fq/zzverif/sim/store"
)

type gen struct{ s uint64 }

func (g *gen) Intn(n int) int {
	if n < 1 {
		n = 1
	}
	g.s += 0x9e3779b97f4a7c15
	z := g.s
	z = (z ^ (z >> 30)) * 0xbf58476d1ce4e5b9
	z = (z ^ (z >> 27)) * 0x94d049bb133111eb
	z ^= z >> 31
	return int(z % uint64(n))
}
func (g *gen) Range(lo, hi int) int {
	if hi < lo {
		return lo
	}
	return lo + g.Intn(hi-lo+1)
}
func (g *gen) Bool(num, den int) bool { return g.Intn(den) < num }

func main() {
	format := flag.String("format", "gzip", "gzip|zip|tar|png|gif|wav")
	seed := flag.Uint64("seed", 1, "seed")
	n := flag.Int("n", 1, "number of files")
	dir := flag.String("dir", ".", "output directory")
	truth := flag.Bool("truth", false, "also write NAME.json with the ground truth")
	flag.Parse()
	for i := 0; i < *n; i++ {
		g := &gen{s: (*seed+uint64(i))*0x9e3779b97f4a7c15 + 12345}
		f := store.Write(g, *format)
		if f == nil {
			fmt.Fprintln(os.Stderr, "unknown format")
			os.Exit(2)
		}
		name := filepath.Join(*dir, fmt.Sprintf("s%d_%s", *seed+uint64(i), f.Name))
		os.WriteFile(name, f.Data, 0o644)
		fmt.Printf("%s: %s %d bytes selfcheck=%q\n", name, f.Note, len(f.Data), f.SelfCheck)
		if *truth {
			data := f.Data
			f.Data = nil
			b, _ := json.MarshalIndent(f, "", " ")
			f.Data = data
			os.WriteFile(name+".json", b, 0o644)
		}
	}
}
