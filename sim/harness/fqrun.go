package harness

import (
	"fmt"
	"strings"

	_ "github.com/wader/fq/format/all"
	"github.com/wader/fq/internal/simrt"
	"github.com/wader/fq/pkg/interp"
	"github.com/wader/fq/zzverif/sim/core"
	"github.com/wader/fq/zzverif/sim/simos"
)

// fqRun is one execution of the whole of fq inside its own simulation.
type fqRun struct {
	Res        simos.Result
	End        int
	Stats      simrt.Stats
	Pairs      []uint32
	PanicVal   string
	PanicStack string
	PanicTask  string
	Blocked    []string
	Trace      []string
	Probes     [16]int64
}

type fqOpts struct {
	Policy int
	Budget int
	Knobs  map[string]int
	// Extra lets a harness add tasks (interrupter, canceller) before the run starts.
	Extra func(sim *simrt.Sim)
	Trace bool
	// Fine keeps the statement-level yields of the instrumented packages
	Fine bool
}

// runFQ executes fq (interp.New, Main, Stop) as task "fq" in a fresh simulation.
func runFQ(t *simrt.Tape, o *simos.OS, opt fqOpts) *fqRun {
	if opt.Budget == 0 {
		opt.Budget = 3000000
	}
	sim := simrt.New(t, opt.Policy, opt.Budget)
	defer sim.Close()
	sim.Coarse = !opt.Fine
	sim.WatchdogMs = 10000 // inputs are small: ten seconds without a scheduling point is a hang
	// fixed order: knob names sorted by the caller's construction
	for _, k := range []string{"cacheReadAheadSize", "progressPrecision"} {
		if v, ok := opt.Knobs[k]; ok {
			sim.SetKnob(k, v)
		}
	}
	r := &fqRun{}
	sim.Spawn("fq", false, func() {
		r.Res = simos.RunFQ(o, interp.DefaultRegistry)
	})
	if opt.Extra != nil {
		opt.Extra(sim)
	}
	r.End = sim.Run()
	r.Stats = sim.Stats()
	r.Pairs = sim.Pairs()
	r.PanicVal, r.PanicStack, r.PanicTask = sim.PanicVal, sim.PanicStack, sim.PanicTask
	if r.End == simrt.EndDeadlock {
		r.Blocked = sim.BlockedTasks()
	}
	if opt.Trace || r.End != simrt.EndAllDone {
		tr := sim.Trace()
		if len(tr) > 300 {
			tr = tr[len(tr)-300:]
		}
		r.Trace = tr
	}
	copy(r.Probes[:], sim.Probes[:16])
	if r.End != simrt.EndAllDone {
		// what was captured so far
		r.Res.Stdout, r.Res.Stderr = o.Out.Bytes(), o.Err.Bytes()
	}
	return r
}

// account adds a run's scheduler numbers and disk faults to a result.
func (r *fqRun) account(res *core.RunResult, o *simos.OS) {
	res.Steps += r.Stats.Steps
	res.SimNanos += r.Stats.SimNanos
	res.Switches += r.Stats.Switches
	res.Pairs = append(res.Pairs, r.Pairs...)
	for i, c := range o.Disk.Counts {
		if c > 0 {
			res.Faults[simos.FaultNames[i]] += c
		}
	}
}

// abnormal turns a run that did not end normally into a violation of prop
// (panic, deadlock) or an inconclusive mark (budget). It returns true if the
// run ended normally.
func (r *fqRun) abnormal(res *core.RunResult, prop, what string) bool {
	switch r.End {
	case simrt.EndAllDone:
		return true
	case simrt.EndPanic:
		fn, class := core.PanicKey(r.PanicVal, r.PanicStack)
		if strings.HasPrefix(fn, "unknown") {
			res.Violate("HARNESS", "panic", what, r.PanicVal+"\n"+r.PanicStack)
		} else {
			res.Violate(prop, "panic", fn+":"+class, fmt.Sprintf("%s: task %s panicked: %s\n%s", what, r.PanicTask, r.PanicVal, r.PanicStack))
		}
	case simrt.EndDeadlock:
		res.Violate(prop, "deadlock", strings.Join(r.Blocked, ","), what+": blocked forever: "+strings.Join(r.Blocked, ", "))
	case simrt.EndBudget:
		res.Inconclusive = what + ": step budget exhausted"
	}
	if res.Trace == nil {
		res.Trace = r.Trace
	}
	return false
}

func fnv64(h uint64, b []byte) uint64 {
	if h == 0 {
		h = 14695981039346656037
	}
	for _, c := range b {
		h = (h ^ uint64(c)) * 1099511628211
	}
	return h
}
