package main

// Stage is one harness configuration explored for a property.
type Stage struct {
	Harness     string
	Config      string
	Race        bool
	Quick       int     // runs in the quick tier
	Thorough    int     // runs in the thorough tier
	QuickSec    float64 // wall-clock cap
	ThoroughSec float64
	MemGB       int // ulimit -v for workers (0 = none)
	HeapGB      int // heap watchdog inside the worker (0 = worker default)
	Workers     int // cap on workers (0 = tier default)
}

// Plan is everything simctl needs to know about one property's check.
type Plan struct {
	Stages       []Stage
	Rule         string
	Real         []string
	Stub         []string
	Assumptions  []string
	ExpectProbes []string
}

var commonAssumptions = []string{
	"sampling, not proof: a clean batch is evidence over the seeds explored",
	"goroutines are real threads parked on raw pipe reads and released one at a time; the choice of who runs, every fault and every generated operation come from one tape derived from VERIF_SEED",
	"interleavings are at statement granularity in internal/ctxstack, internal/ctxreadseeker, internal/iox and at I/O-call granularity elsewhere",
	"the instrumented build (go/ast rewrite + -overlay) behaves like the working tree apart from the inserted scheduling points, simulated channel operations, clock and knobs",
}

var hdecStub = []string{"the disk under the root bit reader (io.ReadSeeker with planned faults)", "at-rest corruption of the stored bytes", "one-task simulation for the watchdog"}
var hdecReal = []string{"pkg/decode (decode, recover, gap filling, post processing)", "all of format/* reachable from the chosen group", "pkg/bitio, pkg/ranges, pkg/scalar", "interp.DefaultRegistry"}

var plans = map[string]Plan{
	"C06": {
		Stages: []Stage{
			{Harness: "hdec", Config: "default", Quick: 4000, Thorough: 100000, QuickSec: 150, ThoroughSec: 2400, MemGB: 4, HeapGB: 1},
			// process level: the whole CLI on corrupted files and a failing disk
			{Harness: "hcrash", Config: "default", Quick: 1200, Thorough: 50000, QuickSec: 90, ThoroughSec: 1200, MemGB: 6, HeapGB: 3},
		},
		Rule: "one run = one decode of a corpus sample (<= 16 KiB, thorough: sometimes <= 256 KiB) with its natural format, the probe or a foreign format, force on/off, through decode.Decode over IOBitReadSeeker(simulated disk) so that every field read is a disk call, under one tape-chosen storage fault: abort at the k-th disk call of the fault-free decode (transient EIO, persistent EIO, early EOF, cancel), truncation at a byte offset (consecutive run indices sweep small files densely), bit-rot of 1..3 bits, overwrite with a boundary byte (offsets biased to the first 64 bytes and to offsets the fault-free decode read with widths 1..8), a zeroed / duplicated / dropped block of 1..512 bytes; the fault-free decode of each pair is checked too; oracle C06: the decode returns - with a tree (possibly partial, error attached) or an error; a panic that escapes decode.Decode is a violation keyed by the innermost fq frame and the panic class; worker deaths from unbounded allocation and spins without I/O are counted as resource-inconclusive, not as violations; distinct = (pair, fault, first bytes) fingerprint; every faulted decode is non-trivial",
		Real: hdecReal,
		Stub: hdecStub,
		Assumptions: append([]string{
			"claims the fault dimension of the statement: the enumerable mutation family is sampled by seed, not exhausted",
			"out-of-memory aborts and decodes that spin without touching the disk are outside the enumerated fault classes and are reported as resource-inconclusive with their top frame",
			"process-level exit statuses under faults are covered by the whole-CLI harnesses (C05 errors configuration, C17)",
		}, commonAssumptions...),
		ExpectProbes: []string{"abort_eio_transient", "abort_eio_persistent", "abort_eof", "abort_cancel", "truncation", "bitrot", "byte_overwrite", "block_zeroed", "block_duplicated", "block_dropped", "abort_landed", "partial_tree_with_error", "cancel_observed", "fault_free_decodes"},
	},
	"C03": {
		Stages: []Stage{
			{Harness: "hdec", Config: "default", Quick: 4000, Thorough: 100000, QuickSec: 150, ThoroughSec: 2400, MemGB: 4, HeapGB: 1},
			// generated decoder programs against a reference interpreter, over a disk with short reads and aborts
			{Harness: "hapi", Config: "default", Quick: 40000, Thorough: 1500000, QuickSec: 60, ThoroughSec: 1500, MemGB: 4, HeapGB: 1},
		},
		Rule: "one run = one decode of a corpus sample (<= 16 KiB, thorough: sometimes <= 256 KiB) with its natural format, the probe or a foreign format, force on/off, through decode.Decode over IOBitReadSeeker(simulated disk) so that every field read is a disk call, under one tape-chosen storage fault: abort at the k-th disk call of the fault-free decode (transient EIO, persistent EIO, early EOF, cancel), truncation at a byte offset (consecutive run indices sweep small files densely), bit-rot of 1..3 bits, overwrite with a boundary byte (offsets biased to the first 64 bytes and to offsets the fault-free decode read with widths 1..8), a zeroed / duplicated / dropped block of 1..512 bytes; the fault-free decode of each pair is checked too; oracle C03 on every returned tree, complete or partial: ranges non-negative and (unless synthetic) inside the value's buffer, a compound's range (inner range for a buffer root) spans every non-synthetic non-root child, struct fields have unique names, non-decreasing start, index -1 and are found by name, array elements are numbered by position, child.parent is the parent, the root's range starts at the decode range || hapi: one run = one decoder program generated together with its expected tree by a reference interpreter (plain integer positions, no I/O): FieldU / FieldRawLen leaves (bit or byte granular, zero length now and then), FieldStruct, FieldArray, an array loop until the end, FramedFn, LimitedFn, RangeFn, SeekAbs/SeekRel with decode functions (a third of them to the current position) and without, FieldFormat / FieldFormatLen / FieldFormatRange with generated nested formats (also in probing groups whose first formats fail; also on an empty remainder), FieldFormatBitBuf and FieldStructRootBitBufFn over generated nested buffers; one program in three has one operation aimed past a boundary, a duplicate field name or a Fatalf; run by the real decode package over IOBitReadSeeker(simulated disk) twice with short reads (1..5 bytes per call) and six times with an abort (transient EIO, persistent EIO, early EOF, cancel) at a drawn disk call; oracle: the fault-free tree - names, kinds, numbering, exact bit ranges, integer values, gap fields - equals the reference tree, a program that fails by design fails and keeps exactly the partial tree built so far, after an abort every field of the returned tree is a field of the reference tree (same path, range and bits), plus the structural oracles above on every tree; distinct = (pair, fault) fingerprint; every faulted decode is non-trivial",
		Real: hdecReal,
		Stub: hdecStub,
		Assumptions: append([]string{
			"claims the fault dimension (partial trees of failed, forced, truncated and corrupted decodes); the last sentence of the statement (decoders written against the API) is claimed for the generated programs of hapi, each run under short reads and aborts at disk calls, for the combinators listed in the rule (scalar mappers, endianness and the try-variants are not generated)",
			"after an injected EIO the buffer length cannot be read back, so the inside-buffer clause is skipped for that run",
		}, commonAssumptions...),
		ExpectProbes: []string{"partial_tree_with_error", "values_walked", "abort_landed", "truncation", "bitrot", "seek_to_current_position", "nested_format_on_empty_range", "programs_failing_by_design", "partial_tree_after_abort", "trees_equal_reference"},
	},
	"C04": {
		Stages: []Stage{
			{Harness: "hdec", Config: "default", Quick: 4000, Thorough: 100000, QuickSec: 150, ThoroughSec: 2400, MemGB: 4, HeapGB: 1},
			// generated decoder programs against a reference interpreter, over a disk with short reads and aborts
			{Harness: "hapi", Config: "default", Quick: 40000, Thorough: 1500000, QuickSec: 60, ThoroughSec: 1500, MemGB: 4, HeapGB: 1},
		},
		Rule: "one run = one decode of a corpus sample (<= 16 KiB, thorough: sometimes <= 256 KiB) with its natural format, the probe or a foreign format, force on/off, through decode.Decode over IOBitReadSeeker(simulated disk) so that every field read is a disk call, under one tape-chosen storage fault: abort at the k-th disk call of the fault-free decode (transient EIO, persistent EIO, early EOF, cancel), truncation at a byte offset (consecutive run indices sweep small files densely), bit-rot of 1..3 bits, overwrite with a boundary byte (offsets biased to the first 64 bytes and to offsets the fault-free decode read with widths 1..8), a zeroed / duplicated / dropped block of 1..512 bytes; the fault-free decode of each pair is checked too; oracle C04 for the top-level buffer and every nested buffer root made by a format decode: a bitmap of the leaf ranges of that root covers [0, length) completely, no gap leaf intersects a field leaf, and (top level) the bits of every gap equal the stored bits of its range; a failed decode that returns a tree must show the undecoded tail as gaps || hapi: one run = one decoder program generated together with its expected tree by a reference interpreter (plain integer positions, no I/O): FieldU / FieldRawLen leaves (bit or byte granular, zero length now and then), FieldStruct, FieldArray, an array loop until the end, FramedFn, LimitedFn, RangeFn, SeekAbs/SeekRel with decode functions (a third of them to the current position) and without, FieldFormat / FieldFormatLen / FieldFormatRange with generated nested formats (also in probing groups whose first formats fail; also on an empty remainder), FieldFormatBitBuf and FieldStructRootBitBufFn over generated nested buffers; one program in three has one operation aimed past a boundary, a duplicate field name or a Fatalf; run by the real decode package over IOBitReadSeeker(simulated disk) twice with short reads (1..5 bytes per call) and six times with an abort (transient EIO, persistent EIO, early EOF, cancel) at a drawn disk call; oracle: the fault-free tree - names, kinds, numbering, exact bit ranges, integer values, gap fields - equals the reference tree, a program that fails by design fails and keeps exactly the partial tree built so far, after an abort every field of the returned tree is a field of the reference tree (same path, range and bits), gap fields are exactly the maximal uncovered runs computed from a bitmap of the reference leaves; distinct = (pair, fault) fingerprint; every faulted decode is non-trivial",
		Real: hdecReal,
		Stub: hdecStub,
		Assumptions: append([]string{
			"claims the fault dimension; gap computation is compared with a bitmap complement on the generated programs of hapi (buffers of 1..40 bytes, bit granular) and by coverage bitmaps on corpus decodes, not exhaustively",
			"after an injected EIO or early EOF coverage and gap content are not compared (the buffer cannot be read back)",
		}, commonAssumptions...),
		ExpectProbes: []string{"buffers_covered", "gaps_checked", "partial_tree_with_error", "truncation", "trees_equal_reference", "nested_buffer"},
	},
	"C18": {
		Stages: []Stage{
			{Harness: "hconc", Config: "default", Quick: 140, Thorough: 6000, QuickSec: 130, ThoroughSec: 1600, MemGB: 10},
			{Harness: "hconc", Config: "default", Race: true, Quick: 80, Thorough: 1200, QuickSec: 110, ThoroughSec: 900},
			// the same sample decoded by 2..3 tasks at once through decode.Decode (no interpreter start-up):
			// every small corpus sample gets its turn; race build, and plain build against the lone decode
			{Harness: "htwins", Config: "default", Race: true, Quick: 8000, Thorough: 250000, QuickSec: 90, ThoroughSec: 1200, MemGB: 6},
			{Harness: "htwins", Config: "default", Quick: 8000, Thorough: 400000, QuickSec: 60, ThoroughSec: 600, MemGB: 6, HeapGB: 2},
			// history dimension on inputs with cross-record state: a capture cut in two
			{Harness: "hsplit", Config: "default", Quick: 170, Thorough: 2000, QuickSec: 70, ThoroughSec: 800, MemGB: 8},
		},
		Rule: "one run = 2..6 decode+display jobs (whole fq each: own Interp and simulated OS, shared process-wide registry and package state) drawn with deliberate collisions (same file several times, with and without force, a job hitting EIO/early EOF mid-way next to succeeding ones) from a pool of small corpus samples (one per format), each with one of four display programs whose lazy reads happen in tree-walk order; the jobs run as tasks of one simulation, parked at every disk call and every terminal write (policy drawn per run; most runs coarse, one in four with statement-level pre-emption in the ctx reader); oracle: each fault-free job's stdout, stderr and status are byte-identical to the first lone execution of that job in this worker process, one job is repeated alone afterwards and must still equal it (state left behind by earlier decodes), no panic, no deadlock; race build: the same interleavings under the race detector with a baton that adds no happens-before edge, reports with both accessing frames in fq count; distinct = schedule fingerprint; non-trivial = more context switches than jobs",
		Real: []string{"the whole of fq per job (interp.New/Main/Stop)", "interp.DefaultRegistry and all package-level state shared by the jobs", "all format decoders the pool needs"},
		Stub: []string{"operating system per job (simos: disk with short reads / planned faults, terminal)", "scheduler"},
		Assumptions: append([]string{
			"a job with an injected disk fault is interference only: what it prints depends on which of its reads the fault hits (fq converts children in Go map order for some programs) and is not compared",
			"programs are restricted to those whose disk reads happen in tree-walk order so that interleavings replay; Go map iteration inside fq/gojq is the one nondeterminism the simulator does not own",
			"a job that crashes or hangs all by itself is dropped from the interleaving (C06 reports crashes)",
		}, commonAssumptions...),
		ExpectProbes: []string{"jobs", "lone_references", "repeat_checked", "failing_jobs", "faulted_jobs", "disk_short_read"},
	},
	"C19": {
		Stages: []Stage{
			{Harness: "hnet", Config: "clean", Quick: 11000, Thorough: 1000000, QuickSec: 90, ThoroughSec: 2400, MemGB: 8},
			{Harness: "hnet", Config: "omission", Quick: 5500, Thorough: 800000, QuickSec: 50, ThoroughSec: 1200, MemGB: 8},
			{Harness: "hnet", Config: "reportonly", Quick: 2000, Thorough: 200000, QuickSec: 20, ThoroughSec: 400, MemGB: 8},
			// captures taken with a snap length, captures that start after the client's SYN, TSO-sized segments behind a gap
			{Harness: "hnet", Config: "snaplen", Quick: 3300, Thorough: 200000, QuickSec: 40, ThoroughSec: 1000, MemGB: 8},
			{Harness: "hnet", Config: "nosyn", Quick: 3500, Thorough: 250000, QuickSec: 40, ThoroughSec: 1000, MemGB: 8},
			{Harness: "hnet", Config: "large", Quick: 1300, Thorough: 120000, QuickSec: 50, ThoroughSec: 1000, MemGB: 8},
		},
		Rule: "one run = a tape-drawn simulated network: 1..5 TCP connections between 2..4 hosts (tape-chosen IPv4 and IPv6 addresses, ports, ISNs incl. near 2^32 and 2^31; each connection carried over IPv4 or IPv6, all-IPv4 / all-IPv6 / mixed captures drawn per run; IPv6 with tape-chosen class, flow label, TCP checksum over the IPv6 pseudo header and optionally one hop-by-hop or destination options header of 8..24 bytes before TCP, never through the fragmenting router), each endpoint a minimal TCP (SYN/SYN-ACK/ACK, MSS option, optional timestamps/SACK-permitted/window-scale, tape-chosen segment cuts, send window, immediate or delayed cumulative ACKs, timeout retransmission with backoff and optionally other boundaries, FIN active/passive/never) sending 0..64 KiB per direction (most runs < 2 KiB); a discrete-event network with its own clock: per-packet delay, loss before the tap, loss after the tap, duplication, hold-back reordering by <= 3 packets of the same direction never across a SYN/FIN, a router fragmenting above a tape-chosen MTU (68..1500, neighbouring fragments sometimes swapped, one fragment sometimes lost), a tap that timestamps and (config omission) omits 1..2 data segments or one of their fragments; the capture is written by independent writers as pcap LE/BE/ns or pcapng LE/BE (1..2 interfaces, options, late IDB, NRB/ISB) over Ethernet (with padding), raw IP, SLL, SLL2 or BSD null (IPv6 in each of them: 0x86dd, AF 30), or LINKTYPE_IPV4 228 / LINKTYPE_IPV6 229 when every packet of the interface is of that family, and decoded by the real fq (decode.Decode via the registry; one run in 48 the whole CLI on the simulated OS with a jq query and JSON). Oracle: exactly the captured connections in order of first captured packet, client = SYN sender, ip/port right (IPv6 addresses compared with RFC 5952 text written independently from the 16 address bytes), each direction's stream equal to the bytes sent (clean) or to the bytes before the first byte missing from the capture (omission), skipped_bytes = 0 when nothing is missing and > 0 when the capture holds data beyond the hole, every fragmented datagram whose fragments are all captured listed in .ipv4_reassembled with its addresses, protocol and payload; generator self-check (tagged HARNESS): its own TCP delivers every stream, fragments reassemble to the datagram sent, checksums verify, bounded liveness after the last fault. reportonly (SYN/FIN swaps, data before SYN, displacement <= 8, pcapng stated section length) only counts mismatches. distinct = FNV of the capture bytes; non-trivial = at least one connection carried data",
		Real: []string{"format/pcap (pcap, pcapng)", "format/inet/flowsdecoder", "gopacket reassembly + ip4defrag", "format/inet (ether8023_frame, sll/sll2/loopback, ipv4_packet, tcp_segment)", "pkg/decode", "pkg/interp + jq + JSON output (1 run in 48)"},
		Stub: []string{"the network, hosts and TCP endpoints (sim/netsim)", "capture writers (sim/netsim)", "simulated OS for the CLI runs"},
		Assumptions: append([]string{
			"IPv4 without IP options; IPv6 without fragment or routing headers (at most one padding-only hop-by-hop or destination options header); BSD loopback AF_INET6 written as 30 only (the value fq's bsd_loopback_frame knows); MTU >= 68; retransmissions carry identical content; no RST or keep-alives",
			"tap omission is judged from what the capture actually holds: an omitted segment that is later retransmitted is not a hole",
			"has_start/has_end are not checked; reorderings beyond what the statement names are report-only",
			"snaplen: the snap length never cuts a link/IP/TCP header and there is no fragmenting router",
			"when the capture does not begin with the client's SYN the client/server label is not asserted, only that each (address, port) carries its own bytes",
		}, commonAssumptions...),
		ExpectProbes: []string{"loss_before_tap", "loss_after_tap", "duplicate", "reorder", "fragment", "frag_reorder", "tap_omission", "seq_wrap", "retransmission", "full_cli_runs", "hole_with_later_data", "reassembled_datagrams", "snaplen_payload_cut", "syn_omission", "first_packet_not_client_syn", "large_segment", "large_segment_behind_gap", "connections_ipv6", "capture_mixed_ipv4_ipv6", "capture_linktype_ipv4_228", "capture_linktype_ipv6_229", "ipv6_over_link_null", "ipv6_dir_hop_by_hop_header", "ipv6_dir_destination_options_header", "dir_ipv6"},
	},
	"C15": {
		Stages: []Stage{
			{Harness: "hstore", Config: "intact", Quick: 400, Thorough: 5000, QuickSec: 60, ThoroughSec: 1000, MemGB: 8},
			{Harness: "hstore", Config: "bitrot", Quick: 400, Thorough: 5000, QuickSec: 60, ThoroughSec: 1000, MemGB: 8},
			{Harness: "hstore", Config: "torn", Quick: 300, Thorough: 4000, QuickSec: 50, ThoroughSec: 900, MemGB: 8},
		},
		Rule: "one run = one container file (gzip 0..6 members / zip / tar entries, png, gif 1..4 frames, wav) written by a Go standard library writer (hand-written 44-byte WAV header, hand-framed tEXt/zTXt png chunks) from tape-drawn contents (names ascii/unicode/long, payloads empty/incompressible/compressible/>64 KiB, gzip levels and name/comment/extra, zip store/deflate with and without data descriptor, tar USTAR/PAX/GNU, png gray/rgb/rgba/paletted, gif local tables/delays) stored on the simulated disk; fault none / storage crash during the write (file is a prefix cut at a tape-chosen byte) / bit-rot (one tape-chosen byte altered, 3 of 4 inside a checksummed region or a stored checksum); the whole of fq (interp.Main, -d FORMAT, one jq query printing JSON) reads it back; oracle intact: names, sizes, header fields, payload bytes (IDAT inflated and unfiltered to the pixels, GIF data un-LZW'd) equal what the writer was given and every stored checksum is marked valid; under a fault never a clean wrong result: per member reported == stored, or its checksum shown invalid, or an error / non-zero exit / member absent; a member lying completely in front of the cut must be right even when a later error is reported; uncovered header fields are not compared under bit-rot; distinct = fingerprint of file bytes + fault + output; non-trivial = at least one member",
		Real: []string{"the whole of fq (pkg/interp, pkg/decode)", "format/gzip, zip, tar, png, gif, riff(wav), flate, crc"},
		Stub: []string{"writer nodes: compress/gzip, archive/zip, archive/tar, image/png, image/gif, hand-written wav (sim/store)", "disk (simos, no read faults)"},
		Assumptions: append([]string{
			"gzip member names are generated ASCII only (fq reads them as UTF-8, RFC 1952 says Latin-1)",
			"a tRNS chunk shown undecoded after a corrupted (and marked invalid) IHDR is accepted: how tRNS is read depends on IHDR",
			"whether a torn member lies in front of the cut is decided from the writer's offsets, not from fq's ranges",
		}, commonAssumptions...),
		ExpectProbes: []string{"gzip_multi_member", "zip_deflate_descriptor", "zip_store_sized", "tar_name_from_pax", "png_multi_idat", "png_ztxt_inflated", "gif_multi_frame", "bitrot_in_checksummed_region", "bitrot_in_stored_checksum", "torn_write"},
	},
	"C05": {
		Stages: []Stage{
			{Harness: "hbits", Config: "benign", Quick: 560, Thorough: 6000, QuickSec: 140, ThoroughSec: 1800, MemGB: 8},
			{Harness: "hbits", Config: "errors", Quick: 1000, Thorough: 12000, QuickSec: 80, ThoroughSec: 1000, MemGB: 8},
			// binaries composed by fq itself over the lazily read file: slices, binary arrays, tobytes(n)/tobits(n)
			{Harness: "halg", Config: "benign", Quick: 1000, Thorough: 30000, QuickSec: 80, ThoroughSec: 1200, MemGB: 8},
		},
		Rule: "one run = the whole of fq on one corpus sample (<= 24 KiB, the format and -o options its .fqtest command line names) with a tape-chosen bits_format, read-ahead size in {1,7,64,4096,512Ki} and progress precision in {1,16,1024}, a scheduler policy, and a simulated disk giving short reads, zero reads and latency (config errors: also transient/persistent EIO); the program lists for up to 120 or 1500 values path, range, buffer root and the rendering of tobytes and tobits under that bits_format, or writes tobytes of the root / of a byte aligned value raw; oracle (harness side, from the stored bytes): tobytes = bits[start:stop] left padded to a byte, tobits the same bits right padded when rendered as bytes, each of hex/base64/md5/snippet/byte_array/truncate/string recomputed with the Go standard library, raw root = the stored file; under error faults equality or a reported error, never a crash; values inside nested buffers and synthetic values are counted and skipped; distinct = distinct (sample, format, bits_format, schedule) fingerprint; non-trivial = at least one value compared",
		Real: []string{"the whole of fq through interp.New/Main/Stop", "the real open stack ctxreadseeker -> progressreadseeker -> aheadreadseeker -> IOBitReadSeeker with knobs", "all format decoders the samples need"},
		Stub: []string{"operating system: file system and disk with fault injection (simos), terminal", "scheduler"},
		Assumptions: append([]string{
			"content of values inside nested buffers (decompressed, reassembled) is not compared here; C15 checks nested content independently",
			"the size prefix of the snippet rendering is not compared, only the encoded bits",
			"runs of U+FFFD are collapsed before comparing string renderings of invalid UTF-8",
		}, commonAssumptions...),
		ExpectProbes: []string{"values_checked", "unaligned_values", "nested_buffer_values_skipped", "disk_short_read", "disk_zero_read", "disk_eio_transient", "disk_eio_persistent", "value_failed_after_fault", "runs_with_error_fault"},
	},
	"C17": {
		Stages: []Stage{
			{Harness: "hcli", Config: "default", Quick: 2400, Thorough: 80000, QuickSec: 120, ThoroughSec: 1500, MemGB: 8},
		},
		Rule: "one run = a tape-drawn command line (flags from the documented set in any order, combined shorts, --flag=value, --, sometimes an unknown flag, a missing value, a bad --argjson, a missing --raw-file/-f file) with 0..4 inputs, each decodable JSON, undecodable under the probe, missing, a directory, unreadable (EACCES) or failing with EIO at open, and a program that succeeds, raises on some inputs or does not compile; the whole of fq runs in-process on the simulated OS (half the runs with short/zero reads and latency on the disk); oracles: (1) exit-status model 2 > 3 > 4 > 5 > 0 over the inputs actually consumed, (2) independence: stdout, stderr and status of the n-input run equal the concatenation/combination of the n single-input runs (slurp: equals the slurp of the good inputs), (3) jq modes (-n -r -j -c -s --raw-output0 --arg --argjson --raw-file --) against the gojq library evaluating the same program on the same JSON; distinct = distinct (argv, input contents); every case is non-trivial",
		Real: []string{"the whole of fq through interp.New/Main/Stop (args.jq, options.jq, init.jq, interp.jq, decode, display)", "internal/ctxstack, ctxreadseeker, aheadreadseeker, progressreadseeker under the file stack"},
		Stub: []string{"operating system: file system and disk (simos), terminal, arguments, environment", "scheduler", "reference engine for oracle 3: the gojq library"},
		Assumptions: append([]string{
			"raw input (-R) is excluded from the independence oracle: like jq it reads all files as one stream of lines",
			"an undecodable input under a single forced format (-d json) yields a tree with the error attached and status 0, so it counts as decodable",
			"without inputs fq reads standard input; such cases are generated with -n only",
			"EIO at open is not assigned a class by the statement: only a non-zero status and unaffected other inputs are required",
		}, commonAssumptions...),
		ExpectProbes: []string{"arg_error_cases", "compile_error_cases", "multi_input_cases", "independence_checked", "slurp_independence_checked", "jq_modes_checked", "input_missing", "input_directory", "input_eacces", "input_eio", "input_undecodable", "disk_short_read"},
	},
	"C01": {
		Stages: []Stage{
			{Harness: "hio", Config: "benign", Quick: 30000, Thorough: 3000000, QuickSec: 70, ThoroughSec: 1200},
			{Harness: "hio", Config: "errors", Quick: 15000, Thorough: 1500000, QuickSec: 40, ThoroughSec: 600},
			// system tier: the stack fq's open really builds, read lazily by tobytes/tobits
			{Harness: "hbits", Config: "benign", Quick: 380, Thorough: 3500, QuickSec: 80, ThoroughSec: 900, MemGB: 8},
			// sub-ranges, concatenations and zero padded views composed by fq itself (binary arrays, slices) over that stack
			{Harness: "halg", Config: "benign", Quick: 1500, Thorough: 50000, QuickSec: 90, ThoroughSec: 1500, MemGB: 8},
			{Harness: "halg", Config: "errors", Quick: 1000, Thorough: 30000, QuickSec: 60, ThoroughSec: 1000, MemGB: 8},
		},
		Rule: "one run = a tape-drawn reader composition (in-memory bit reader, zero reader, file stack IOBitReadSeeker(ahead?(progress?(ctx?(simulated disk)))) bare or clamped by bitiox.Range, section, multi, clone, byte round trip IOBitReadSeeker(IOReadSeeker(x)), limit) and 10..70 operations on it and its clones (ReadBits, ReadBitsAt, SeekBits start/current/end, ReadFull/ReadAtFull, clone, IOReader/IOReadSeeker byte views with 1..512 byte buffers, bitio.Copy into Buffer and IOBitWriter+Flush) while the simulated disk returns short reads, zero reads, latency and (config errors) transient/persistent EIO and the context is cancelled at a tape-chosen step; oracle: a reference bit-string model per node - count in range, no bit beyond the logical end, returned bits equal the model, EOF only at the logical end, seek results equal the model, byte views and writers equal the model zero padded; under error-class faults an operation may fail but never return wrong bits, and no call blocks forever; distinct = distinct (schedule, operation log) fingerprint; non-trivial = at least three operations executed",
		Real: []string{"pkg/bitio (all readers, adapters, writer)", "internal/bitiox", "internal/aheadreadseeker", "internal/progressreadseeker", "internal/ctxreadseeker (statement-level yields, simulated channel rendezvous)"},
		Stub: []string{"disk (io.ReadSeeker with fault injection)", "sink (io.Writer)", "scheduler"},
		Assumptions: append([]string{
			"read-at offsets are >= 0; a seek to a negative target may answer anything and is followed by an absolute seek",
			"a byte view (IOReadSeeker) over a source whose length is not a whole number of bytes is only read forward and seeked absolutely to whole bytes: where its end lies for seeking is not defined by the statement",
			"under error-class faults content is still compared for whatever an operation returns; only the failure of the operation itself is accepted",
		}, commonAssumptions...),
		ExpectProbes: []string{"ctx_layer", "progress_fn", "multi_child", "section_clamp", "big_read", "unaligned_readat", "eof_with_bits", "seek_end", "seek_current", "clone", "byte_view", "bit_writer", "resync_after_fault", "read_full", "disk_short_read", "disk_zero_read", "disk_eio_transient", "disk_eio_persistent", "ctx_cancel"},
	},
	"C20": {
		Stages: []Stage{
			{Harness: "hctx", Config: "default", Quick: 40000, Thorough: 4000000, QuickSec: 120, ThoroughSec: 1200},
			{Harness: "hctx", Config: "default", Race: true, Quick: 2000, Thorough: 100000, QuickSec: 60, ThoroughSec: 600},
			// cancellation while a read or seek of the ctx reader is in flight (race mode)
			{Harness: "hio", Config: "errors", Race: true, Quick: 1500, Thorough: 60000, QuickSec: 40, ThoroughSec: 400},
			// liveness: a cancelled evaluation blocked in a read of a stalled device comes back
			{Harness: "hstall", Config: "default", Quick: 6000, Thorough: 600000, QuickSec: 30, ThoroughSec: 300},
			// system tier: whole fq in REPL / CLI mode under interrupts
			{Harness: "hrepl", Config: "default", Quick: 480, Thorough: 19000, QuickSec: 80, ThoroughSec: 1600, MemGB: 8},
			{Harness: "hrepl", Config: "default", Race: true, Quick: 60, Thorough: 2900, QuickSec: 80, ThoroughSec: 1000},
		},
		Rule: "stalled device (hstall): a reader task does 3..7 reads and seeks through ctxreadseeker over a device that stalls at one drawn call and answers only after the caller is back, an interrupter cancels the context after 0..119 steps; oracle: the simulation does not deadlock (the cancelled call returns with the context error while the device still stalls), data returned before that is the device's || component tier: one run = a tape-drawn list of 3..12 push/finish/observe/write/stop operations by an evaluator task against 0..3 interrupts by an interrupter task, scheduled at statement level (policy drawn per run) over the real ctxstack; oracle: history linearizable (porcupine) against a stack-of-contexts model, no panic in any task, no deadlock, no race report in race mode; distinct = distinct schedule fingerprint (FNV of the event log); non-trivial = at least two recorded operations. hio race stage: cancellation while a read or seek of the ctx reader is in flight. system tier (hrepl): the whole of fq in REPL mode (fq -i, nested repl, multi-output lines each value displayed in a sub-evaluation, ^C at the prompt, ^D) or as one CLI evaluation, with 0..3 interrupts sent through the 1-buffered interrupt channel at tape-chosen OS events; reference = the same session without interrupts; oracle: per line (context-free lines, reference output known by text) the output is the reference with at most one contiguous piece removed per delivered interrupt not yet accounted for, lines evaluated before the first interrupt are exact, Main returns, no panic, no deadlock; race build of the same sessions",
		Real: []string{"internal/ctxstack (statement-level yields)", "internal/iox.CtxWriter", "context", "internal/ctxreadseeker (hio race stage)", "the whole of fq incl. repl.jq, interp.go Eval/interruptStack (hrepl)"},
		Stub: []string{"trigger source (1-buffered interrupt channel as in pkg/cli)", "scheduler", "io.Discard sink", "simulated OS with scripted readline (hrepl)"},
		Assumptions: append([]string{
			"the evaluator never pushes or finishes after Stop (fq calls Stop last); an abandoned entry popped by an outer finish is never finished itself (DESIGN §4)",
		}, commonAssumptions...),
		ExpectProbes: []string{"interrupt", "interrupt_dropped", "porcupine_ok"},
	},
}
