package netsim

import (
	"bytes"
	"testing"
)

type testTape struct{ s prng }

func (t *testTape) Intn(n int) int {
	if n < 1 {
		n = 1
	}
	return int(t.s.next() % uint64(n))
}

type zeroTape struct{}

func (zeroTape) Intn(int) int { return 0 }

func runOne(seed uint64, p Params) (*World, *Truth, []byte, *CaptureSpec) {
	t := &testTape{s: prng(seed)}
	w := Generate(t, p)
	w.Run()
	if w.Err != "" {
		return w, nil, nil, nil
	}
	s := DrawCaptureSpec(t, p, w)
	b := WriteCapture(w, s)
	return w, ComputeTruth(w), b, s
}

// The generator's own TCP delivers every stream, the clean configuration
// never loses a byte at the tap, and the same tape gives the same capture.
func TestGeneratorSelfCheck(t *testing.T) {
	var faults [NumFaults]int
	for _, p := range []Params{{}, {Omission: true}, {Wide: true}, {Snaplen: true}, {NoSYN: true}, {Large: true}} {
		holes := 0
		for seed := uint64(1); seed <= 2000; seed++ {
			w, tr, b, _ := runOne(seed, p)
			if w.Err != "" {
				t.Fatalf("params %+v seed %d: %s", p, seed, w.Err)
			}
			for i, f := range w.Faults {
				faults[i] += f
			}
			if len(tr.Conns) != len(w.Conns) {
				t.Fatalf("seed %d: %d of %d connections captured", seed, len(tr.Conns), len(w.Conns))
			}
			holes += tr.Holes
			if !w.MayLoseBytes() && tr.Holes != 0 {
				t.Fatalf("params %+v seed %d: capture lacks stream bytes without tap omission", p, seed)
			}
			if !p.Wide && !p.NoSYN {
				for _, c := range tr.Conns {
					if c.FirstSide != 0 || !c.FirstIsSYN {
						t.Fatalf("seed %d: first captured packet of a connection is not the client's SYN", seed)
					}
				}
			}
			if seed%50 == 0 {
				_, _, b2, _ := runOne(seed, p)
				if !bytes.Equal(b, b2) {
					t.Fatalf("seed %d: not deterministic", seed)
				}
			}
		}
		if (p.Omission || p.Snaplen || p.Large) && holes == 0 {
			t.Fatalf("params %+v never produced a hole", p)
		}
	}
	for i, f := range faults {
		if f == 0 {
			t.Errorf("fault kind %s never fired", FaultNames[i])
		}
	}
	t.Logf("faults: %v", faults)
}

func TestZeroTape(t *testing.T) {
	w := Generate(zeroTape{}, Params{})
	w.Run()
	if w.Err != "" {
		t.Fatal(w.Err)
	}
	if len(w.Tap) < 3 {
		t.Fatalf("zero tape: %d packets", len(w.Tap))
	}
}

func TestChecksums(t *testing.T) {
	// RFC 1071 example
	if s := foldSum(onesSum(0, []byte{0x00, 0x01, 0xf2, 0x03, 0xf4, 0xf5, 0xf6, 0xf7})); s != ^uint16(0xddf2) {
		t.Fatalf("checksum %04x", s)
	}
	// a header from the wild (en.wikipedia.org/wiki/IPv4_header_checksum)
	h := []byte{0x45, 0x00, 0x00, 0x73, 0x00, 0x00, 0x40, 0x00, 0x40, 0x11, 0x00, 0x00, 0xc0, 0xa8, 0x00, 0x01, 0xc0, 0xa8, 0x00, 0xc7}
	if s := foldSum(onesSum(0, h)); s != 0xb861 {
		t.Fatalf("ipv4 checksum %04x", s)
	}
}

func TestFragmenter(t *testing.T) {
	payload := make([]byte, 3000)
	for i := range payload {
		payload[i] = byte(i * 13)
	}
	ip := buildIPv4([4]byte{10, 0, 0, 1}, [4]byte{10, 0, 0, 2}, 77, 0, 64, 0, 6, payload)
	for _, mtu := range []int{68, 69, 75, 576, 1500, 2999, 3019} {
		fr := fragmentIPv4(ip, mtu)
		for i, f := range fr {
			if len(f) > mtu {
				t.Fatalf("mtu %d: fragment of %d bytes", mtu, len(f))
			}
			h, p, err := parseIPv4(f)
			if err != nil {
				t.Fatal(err)
			}
			if h.mf != (i < len(fr)-1) || (h.mf && len(p)%8 != 0) {
				t.Fatalf("mtu %d fragment %d: mf=%v len=%d", mtu, i, h.mf, len(p))
			}
		}
		// any order
		for i, j := 0, len(fr)-1; i < j; i, j = i+1, j-1 {
			fr[i], fr[j] = fr[j], fr[i]
		}
		back, err := reassembleIPv4(fr)
		if err != nil || !bytes.Equal(back, ip) {
			t.Fatalf("mtu %d: reassembly failed: %v", mtu, err)
		}
	}
}

// The IPv6 packet builder: a hand-computed checksum, the checksum self-check
// (pseudo header + segment sums to zero), the header fields, the extension
// headers, and the receiving host's parser rejecting a damaged packet.
func TestIPv6Builder(t *testing.T) {
	var one, two [16]byte
	one[15], two[15] = 1, 2
	// ::1 > ::2, ports 1 > 2, everything else zero, data offset 5: pseudo
	// header words 1 + 2 + 0x14 (length) + 6 (next header) = 0x1d, segment
	// words 1 + 2 + 0x5000 = 0x5003, sum 0x5020, checksum ^0x5020 = 0xafdf
	seg := buildTCP6(one, two, 1, 2, 0, 0, 0, 0, nil, nil)
	if got := get16(seg[16:]); got != 0xafdf {
		t.Fatalf("checksum %04x, want afdf", got)
	}
	src := [16]byte{0x20, 0x01, 0x0d, 0xb8, 0, 0, 0, 0, 0, 0, 0, 0, 0, 0, 0, 1}
	dst := [16]byte{0xfe, 0x80, 0, 0, 0, 0, 0, 0, 2, 0x11, 0x22, 0xff, 0xfe, 0x33, 0x44, 0x55}
	for _, n := range []int{0, 1, 2, 3, 536, 1441, 65000} {
		payload := make([]byte, n)
		for i := range payload {
			payload[i] = byte(i*31 + n)
		}
		opts := []byte{1, 1, 8, 10, 1, 2, 3, 4, 5, 6, 7, 8}
		seg := buildTCP6(src, dst, 40000, 443, 0xfffffff0, 77, FlagACK|FlagPSH, 1000, opts, payload)
		var ph [40]byte
		copy(ph[0:], src[:])
		copy(ph[16:], dst[:])
		put32(ph[32:], uint32(len(seg)))
		ph[39] = 6
		if s := foldSum(onesSum(onesSum(0, ph[:]), seg)); s != 0 {
			t.Fatalf("payload %d: pseudo header + segment sum to %04x, not zero", n, s)
		}
		for _, ek := range []struct {
			kind  uint8
			units int
		}{{0, 0}, {nhHopByHop, 1}, {nhDestOpts, 1}, {nhHopByHop, 3}, {nhDestOpts, 2}} {
			var ext []byte
			if ek.units > 0 {
				ext = extHeader6(nhTCP, ek.units)
				if len(ext) != 8*ek.units || ext[0] != 6 || int(ext[1]) != ek.units-1 {
					t.Fatalf("extension header %x", ext)
				}
			}
			ip := buildIPv6(src, dst, 0xb8, 0xabcde, 64, nhTCP, ek.kind, ext, seg)
			if ip[0] != 0x6b || ip[1] != 0x8a || ip[2] != 0xbc || ip[3] != 0xde {
				t.Fatalf("version/class/flow %x", ip[:4])
			}
			if int(get16(ip[4:])) != len(ext)+len(seg) || len(ip) != 40+len(ext)+len(seg) || ip[7] != 64 {
				t.Fatalf("payload length %d for %d+%d", get16(ip[4:]), len(ext), len(seg))
			}
			if want := uint8(nhTCP); ek.units > 0 && ip[6] != ek.kind || ek.units == 0 && ip[6] != want {
				t.Fatalf("next header %d", ip[6])
			}
			h, s6, err := parseIPv6(ip)
			if err != nil || h.src != src || h.dst != dst || h.proto != nhTCP || h.tclass != 0xb8 || h.flow != 0xabcde || !bytes.Equal(s6, seg) {
				t.Fatalf("parse back: %v %+v", err, h)
			}
			if (ek.units > 0) != (len(h.extKinds) == 1) {
				t.Fatalf("extension headers seen: %v", h.extKinds)
			}
			th, p, err := parseTCPAddr(addr6(h.src), addr6(h.dst), s6)
			if err != nil || !bytes.Equal(p, payload) || th.sp != 40000 || th.dp != 443 || th.seq != 0xfffffff0 {
				t.Fatalf("tcp parse back: %v", err)
			}
			// one flipped bit anywhere in addresses or segment is noticed
			for _, at := range []int{8, 39, 40 + len(ext), len(ip) - 1} {
				bad := append([]byte(nil), ip...)
				bad[at] ^= 0x10
				bh, bs, err := parseIPv6(bad)
				if err == nil {
					_, _, err = parseTCPAddr(addr6(bh.src), addr6(bh.dst), bs)
				}
				if err == nil {
					t.Fatalf("payload %d: flipped bit at %d not noticed", n, at)
				}
			}
		}
		// the IPv4 pseudo header gives another checksum: the two are not mixed up
		if _, _, err := parseTCP([4]byte{}, [4]byte{}, seg); err == nil {
			t.Fatal("IPv6 checksum verifies with an IPv4 pseudo header")
		}
	}
}

// IPv6 connections, mixed captures, both single-family link types and both
// extension headers are reached; single-family link types only hold packets
// of their family (frame panics otherwise); IPv6 packets are never fragmented.
func TestIPv6Reach(t *testing.T) {
	var conn4, conn6, mixed, only6, l228, l229, hbh, dopt, nullV6, mapped int
	for _, p := range []Params{{}, {Omission: true}, {Snaplen: true}, {NoSYN: true}, {Large: true}, {Wide: true}} {
		for seed := uint64(1); seed <= 600; seed++ {
			w, _, b, s := runOne(seed+7000, p)
			if w.Err != "" {
				t.Fatalf("params %+v seed %d: %s", p, seed, w.Err)
			}
			if len(b) == 0 {
				t.Fatal("empty capture")
			}
			n6 := 0
			for _, cn := range w.Conns {
				if cn.V6 {
					n6++
					for side := 0; side < 2; side++ {
						switch cn.Ends[side].ExtKind() {
						case nhHopByHop:
							hbh++
						case nhDestOpts:
							dopt++
						}
						if cn.Ends[side].Addr().V4Mapped() {
							mapped++
						}
					}
				}
			}
			conn6 += n6
			conn4 += len(w.Conns) - n6
			if n6 > 0 && n6 < len(w.Conns) {
				mixed++
			}
			if n6 == len(w.Conns) {
				only6++
			}
			for _, l := range s.Links {
				switch l {
				case LinkIPv4:
					l228++
				case LinkIPv6:
					l229++
				case LinkNull:
					if n6 > 0 {
						nullV6++
					}
				}
			}
			for i := range w.Tap {
				r := &w.Tap[i]
				if r.V6 != (r.IP[0]>>4 == 6) || (r.V6 && r.NFrag != 1) {
					t.Fatalf("seed %d: tap record %d: family %v, first byte %02x, %d fragments", seed, i, r.V6, r.IP[0], r.NFrag)
				}
			}
		}
	}
	t.Logf("connections v4 %d v6 %d, captures mixed %d all-v6 %d, linktype 228: %d 229: %d, hop-by-hop dirs %d, dest-opts dirs %d, null link with v6 %d, v4-mapped ends %d",
		conn4, conn6, mixed, only6, l228, l229, hbh, dopt, nullV6, mapped)
	for name, n := range map[string]int{"v4": conn4, "v6": conn6, "mixed": mixed, "only6": only6, "228": l228, "229": l229, "hbh": hbh, "dopt": dopt, "null6": nullV6} {
		if n == 0 {
			t.Errorf("never reached: %s", name)
		}
	}
	if w := Generate(zeroTape{}, Params{}); w.Conns[0].V6 {
		t.Error("the zero tape should give the simplest world: IPv4")
	}
}
