package harness

import (
	_ "github.com/wader/fq/format/all"
	"github.com/wader/fq/zzverif/sim/simos"
)

var _ = simos.New
