package store

import (
	"archive/tar"
	"bytes"
	"fmt"
	"io"
	"strconv"
	"strings"
	"time"
)

// TarMember is what one tar entry was given and where its parts lie.
type TarMember struct {
	Name        string
	Typeflag    byte
	Format      string // format asked for: "", USTAR, PAX, GNU
	Mode        int64
	Uid, Gid    int
	Uname       string
	Gname       string
	Linkname    string
	MTime       int64
	Size        int64
	Payload     []byte
	PayloadKind string
	// offsets: [Start,HdrOff) holds extension entries (pax 'x' or GNU 'L'
	// records) that carry what does not fit the 512-byte header, [HdrOff,
	// DataOff) is the header block, [DataOff,DataOff+Size) the data,
	// padded with zeros up to End.
	Start, HdrOff, DataOff, End int
	Chksum                      int64 // stored in the header block at HdrOff
}

type TarTruth struct {
	Members []TarMember
	EndOff  int // start of the end-of-archive marker (two zero blocks)
}

func tarFormat(s string) tar.Format {
	switch s {
	case "USTAR":
		return tar.FormatUSTAR
	case "PAX":
		return tar.FormatPAX
	case "GNU":
		return tar.FormatGNU
	}
	return tar.FormatUnknown
}

// WriteTar stores 0..6 entries with archive/tar in the USTAR, PAX and GNU
// formats (or the writer's own choice), with names that need the ustar
// prefix split, pax records or GNU long-name entries.
func WriteTar(g Gen) *File {
	f := &File{Format: "tar", Name: "f.tar", Tar: &TarTruth{}}
	tt := f.Tar
	n := memberCount(g)
	var buf bytes.Buffer
	tw := tar.NewWriter(&buf)
	for i := 0; i < n; i++ {
		m := TarMember{Typeflag: tar.TypeReg}
		m.Format = []string{"", "", "USTAR", "PAX", "GNU"}[g.Intn(5)]
		m.Name = Name(g, NameStyle(g))
		m.Mode = []int64{0o644, 0o755, 0o600, 0o4755, 0}[g.Intn(5)]
		if g.Bool(1, 2) {
			m.Uid, m.Gid = g.Intn(70000), g.Intn(70000)
		}
		if g.Bool(1, 2) {
			m.Uname, m.Gname = pick(g, asciiStems), pick(g, asciiStems)
		}
		switch g.Intn(3) {
		case 0:
			m.MTime = int64(g.Intn(100000))
		default:
			m.MTime = int64(1000000000 + g.Intn(700000000))
		}
		switch k := g.Intn(12); {
		case k == 0:
			m.Typeflag = tar.TypeDir
			m.Name += "/"
			m.Payload = []byte{}
		case k == 1:
			m.Typeflag = tar.TypeSymlink
			m.Linkname = Name(g, NameASCII)
			m.Payload = []byte{}
		default:
			m.Payload, m.PayloadKind = Payload(g)
		}
		m.Size = int64(len(m.Payload))
		hdr := &tar.Header{Typeflag: m.Typeflag, Name: m.Name, Linkname: m.Linkname, Size: m.Size, Mode: m.Mode, Uid: m.Uid, Gid: m.Gid,
			Uname: m.Uname, Gname: m.Gname, ModTime: time.Unix(m.MTime, 0), Format: tarFormat(m.Format)}
		m.Start = buf.Len()
		if err := tw.WriteHeader(hdr); err != nil {
			// the format asked for cannot hold this header (non fatal): let the writer choose
			m.Format = ""
			hdr.Format = tar.FormatUnknown
			if err := tw.WriteHeader(hdr); err != nil {
				f.fail("tar header %d: %v", i, err)
				break
			}
		}
		if _, err := tw.Write(m.Payload); err != nil {
			f.fail("tar write %d: %v", i, err)
		}
		if err := tw.Flush(); err != nil {
			f.fail("tar flush %d: %v", i, err)
		}
		m.End = buf.Len()
		m.DataOff = m.End - int((m.Size+511)/512*512)
		m.HdrOff = m.DataOff - 512
		tt.Members = append(tt.Members, m)
	}
	tt.EndOff = buf.Len()
	if err := tw.Close(); err != nil {
		f.fail("tar close: %v", err)
	}
	f.Data = buf.Bytes()
	d := f.Data
	for i := range tt.Members {
		m := &tt.Members[i]
		if m.HdrOff < m.Start || (m.End-m.Start)%512 != 0 {
			f.fail("tar member %d: layout", i)
			return f
		}
		h := d[m.HdrOff : m.HdrOff+512]
		cs, err := strconv.ParseInt(strings.Trim(string(h[148:156]), " \x00"), 8, 64)
		var sum int64
		for j, c := range h {
			if j >= 148 && j < 156 {
				c = ' '
			}
			sum += int64(c)
		}
		if err != nil || cs != sum || h[156] != m.Typeflag {
			f.fail("tar member %d: header block at %d: chksum %d/%d typeflag %c", i, m.HdrOff, cs, sum, h[156])
			return f
		}
		m.Chksum = cs
		// extension entries: each is header block + data blocks
		for o := m.Start; o < m.HdrOff; {
			sz, err := strconv.ParseInt(strings.Trim(string(d[o+124:o+136]), " \x00"), 8, 64)
			if err != nil {
				f.fail("tar member %d: extension entry at %d", i, o)
				return f
			}
			f.region(o, o+148, i, KHeader, "chksum")
			f.region(o+148, o+156, i, KChecksum, "chksum")
			f.region(o+156, o+512, i, KHeader, "chksum")
			de := o + 512 + int(sz)
			f.region(o+512, de, i, KMeta, "") // pax records / long name: no checksum covers them
			o += 512 + int((sz+511)/512*512)
			f.region(de, o, i, KPadding, "")
		}
		f.region(m.HdrOff, m.HdrOff+148, i, KHeader, "chksum")
		f.region(m.HdrOff+148, m.HdrOff+156, i, KChecksum, "chksum")
		f.region(m.HdrOff+156, m.DataOff, i, KHeader, "chksum")
		f.region(m.DataOff, m.DataOff+int(m.Size), i, KPayload, "")
		f.region(m.DataOff+int(m.Size), m.End, i, KPadding, "")
	}
	f.region(tt.EndOff, len(d), -1, KMeta, "")
	// independent read back
	tr := tar.NewReader(bytes.NewReader(d))
	for i := range tt.Members {
		m := &tt.Members[i]
		h, err := tr.Next()
		if err != nil {
			f.fail("tar read back %d: %v", i, err)
			return f
		}
		got, _ := io.ReadAll(tr)
		if h.Name != m.Name || !bytes.Equal(got, m.Payload) || h.Linkname != m.Linkname {
			f.fail("tar read back %d: name %q", i, h.Name)
		}
	}
	f.Note = fmt.Sprintf("tar %d members", len(tt.Members))
	return f
}
