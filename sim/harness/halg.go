package harness

import (
	"encoding/hex"
	"encoding/json"
	"fmt"
	"math/big"
	"strings"

	"github.com/wader/fq/internal/simrt"
	"github.com/wader/fq/zzverif/sim/core"
	"github.com/wader/fq/zzverif/sim/corpus"
	"github.com/wader/fq/zzverif/sim/model"
	"github.com/wader/fq/zzverif/sim/simos"
)

// H-ALG: bit sources composed *by fq itself* over the lazily read file (system
// tier of C01; C05's tobytes(n)/tobits(n) and slices). One run draws 2..5
// expressions that build binaries out of decode values of the opened file -
// sub-ranges (slices in bit or byte units, from the start and from the end),
// concatenations (binary arrays of values, byte numbers, strings, other
// binaries, nested arrays), zero padded conversions (tobytes, tobits(n),
// tobytes(n)) in any nesting up to depth 4 - and evaluates all of them in one
// fq process whose file sits on the simulated disk (short/zero reads, latency,
// errors, small read-ahead and progress knobs, schedules of the ctx reader).
// Nothing is in memory when an expression is evaluated: each is a tree of
// MultiReader / SectionReader / ZeroReadAtSeeker over the one shared file stack,
// read in an order the expressions decide.
//
// The expected bits are computed by the harness from the stored file with the
// bit-string model and the ranges the values report (first output line), using
// the documented rules only (doc/usage.md "Binary", "Binary array"): a decode
// value or binary contributes its bits, a number in an array one byte, a
// string its UTF-8 bytes, a number on its own the minimal big-endian bits,
// tobytes left-pads with zero bits to a byte multiple, tobits(n)/tobytes(n) to a
// multiple of n units, .[a:b] counts in units, negative from the end.
//
// Oracle, benign disk: every expression's bit length, bytes (left padded) and
// one indexed unit equal the model. Error configuration: every completely
// written line equals the model; missing lines imply a non-zero exit status.

func init() { core.Register(&halg{}) }

type halg struct{}

func (*halg) Name() string { return "halg" }

// algNode is an expression: its jq text and, once the atoms' ranges are known,
// its bits.
type algNode struct {
	kind  string // val num str arr conv slice topnum
	k     int    // val: atom number; num/topnum: the number
	s     string
	items []*algNode
	unit  int // conv: 1 or 8
	padTo int // conv: 0 = none given
	p, q  int // slice: sixteenths
	neg   bool
}

type algGen struct {
	t      *simrt.Tape
	nAtoms int
	counts map[string]int
}

var algStrings = []string{"", "a", "fq", "\x7f~", "hello world", "å", "€uro"}

func (g *algGen) atom() *algNode {
	g.nAtoms++
	return &algNode{kind: "val", k: g.t.Intn(4000)}
}

// binary: an expression whose value is a binary
func (g *algGen) binary(depth int) *algNode {
	c := g.t.Intn(10)
	if depth <= 0 && c >= 6 {
		c = g.t.Intn(6)
	}
	switch {
	case c < 6:
		n := &algNode{kind: "conv", unit: []int{1, 8}[g.t.Intn(2)]}
		if g.t.Intn(3) == 0 {
			n.padTo = []int{1, 2, 3, 4, 5, 8, 16}[g.t.Intn(7)]
		}
		switch cc := g.t.Intn(8); {
		case cc < 3:
			n.items = []*algNode{g.atom()}
		case cc < 6 && depth > 0:
			n.items = []*algNode{g.array(depth - 1)}
		case cc == 6:
			n.items = []*algNode{{kind: "topnum", k: []int{0, 1, 255, 256, 1234, 65535, 0x123456}[g.t.Intn(7)]}}
		case cc == 7 && depth > 0:
			n.items = []*algNode{g.binary(depth - 1)}
		default:
			n.items = []*algNode{g.atom()}
		}
		g.counts["conv"]++
		return n
	default:
		p := g.t.Intn(17)
		q := p + g.t.Intn(17-p)
		g.counts["slice"]++
		return &algNode{kind: "slice", items: []*algNode{g.binary(depth - 1)}, p: p, q: q, neg: g.t.Intn(3) == 0}
	}
}

func (g *algGen) array(depth int) *algNode {
	n := &algNode{kind: "arr"}
	cnt := g.t.Intn(5)
	for i := 0; i < cnt; i++ {
		switch c := g.t.Intn(10); {
		case c < 3:
			n.items = append(n.items, g.atom())
		case c == 3:
			n.items = append(n.items, &algNode{kind: "num", k: g.t.Intn(256)})
		case c == 4:
			n.items = append(n.items, &algNode{kind: "str", s: algStrings[g.t.Intn(len(algStrings))]})
		case c < 8 && depth > 0:
			n.items = append(n.items, g.binary(depth-1))
		case c == 8 && depth > 0:
			n.items = append(n.items, g.array(depth-1))
		default:
			n.items = append(n.items, g.atom())
		}
	}
	g.counts["arr"]++
	return n
}

func (n *algNode) text() string {
	switch n.kind {
	case "val":
		return fmt.Sprintf("v(%d)", n.k)
	case "num", "topnum":
		return fmt.Sprint(n.k)
	case "str":
		b, _ := json.Marshal(n.s)
		return string(b)
	case "arr":
		var parts []string
		for _, it := range n.items {
			parts = append(parts, it.text())
		}
		return "[" + strings.Join(parts, ", ") + "]"
	case "rep":
		// the same value often enough for 75 KB: more than the copy buffers between a binary and its consumer
		return fmt.Sprintf("(v(%d) as $x | [range([(600000 / (($x | tobits | length) + 1) | floor) + 1, 3000] | min) | $x])", n.k)
	case "conv":
		f := map[int]string{1: "tobits", 8: "tobytes"}[n.unit]
		if n.padTo > 0 {
			f += fmt.Sprintf("(%d)", n.padTo)
		}
		return "(" + n.items[0].text() + " | " + f + ")"
	case "cut":
		return fmt.Sprintf("(%s | length as $l | .[%d:$l-%d])", n.items[0].text(), n.p, n.q)
	case "slice":
		f := "sl"
		if n.neg {
			f = "sn"
		}
		return fmt.Sprintf("(%s | %s(%d; %d))", n.items[0].text(), f, n.p, n.q)
	}
	return "null"
}

func (n *algNode) atoms(out *[]int) {
	if n.kind == "val" || n.kind == "rep" {
		*out = append(*out, n.k)
	}
	for _, it := range n.items {
		it.atoms(out)
	}
}

// eval gives the bits and the unit (0 = not a binary: a raw contribution)
func (n *algNode) eval(valBits func(k int) model.Bits) (model.Bits, int) {
	switch n.kind {
	case "val":
		return valBits(n.k), 0
	case "num":
		return model.FromBytes([]byte{byte(n.k)}, 8), 0
	case "topnum":
		bi := big.NewInt(int64(n.k))
		if bi.BitLen() == 0 {
			return model.Zeros(1), 0
		}
		by := bi.Bytes()
		all := model.FromBytes(by, int64(len(by))*8)
		return all.Slice(int64(len(all)-bi.BitLen()), int64(len(all))), 0
	case "str":
		return model.FromBytes([]byte(n.s), int64(len(n.s))*8), 0
	case "arr":
		var parts []model.Bits
		for _, it := range n.items {
			b, _ := it.eval(valBits)
			parts = append(parts, b)
		}
		return model.Concat(parts...), 0
	case "rep":
		x := valBits(n.k)
		cnt := 600000/(len(x)+1) + 1
		if cnt > 3000 {
			cnt = 3000
		}
		parts := make([]model.Bits, cnt)
		for i := range parts {
			parts[i] = x
		}
		return model.Concat(parts...), 0
	case "conv":
		b, _ := n.items[0].eval(valBits)
		m := int64(n.unit)
		if n.padTo > 0 {
			m *= int64(n.padTo)
		}
		pad := (m - int64(len(b))%m) % m
		return model.Concat(model.Zeros(pad), b), n.unit
	case "cut":
		b, u := n.items[0].eval(valBits)
		l := int64(len(b)) / int64(u)
		if int64(n.p+n.q) > l {
			return b.Slice(0, 0), u
		}
		return b.Slice(int64(n.p)*int64(u), (l-int64(n.q))*int64(u)), u
	case "slice":
		b, u := n.items[0].eval(valBits)
		l := int64(len(b)) / int64(u)
		a, e := l*int64(n.p)/16, l*int64(n.q)/16
		return b.Slice(a*int64(u), e*int64(u)), u
	}
	return nil, 0
}

const algDefs = `def sl($p; $q): length as $l | ($l*$p/16|floor) as $a | ($l*$q/16|floor) as $b | .[$a:$b];` +
	` def sn($p; $q): length as $l | ($l*$p/16|floor) as $a | ($l*$q/16|floor) as $b |` +
	` if $l-$a > 0 and $l-$b > 0 then .[-($l-$a):-($l-$b)] elif $l-$a > 0 then .[-($l-$a):$b] else .[$a:$b] end;` +
	` def out($i): . as $b | ($b | length) as $l | [($b | tobits | length), ($b | tobytes | to_hex), (if $l > 0 then $b[($l*$i/16|floor) % $l] else null end)] | tojson;`

func (*halg) Run(rc *core.RunCtx) *core.RunResult {
	res := core.NewResult()
	t := rc.T
	samples := corpus.MaxSize(24 * 1024)
	if len(samples) == 0 {
		res.Violate("HARNESS", "no-corpus", "halg", "no samples harvested from the working tree")
		return res
	}
	s := samples[t.Intn(len(samples))]
	large := t.Intn(8) == 0
	if large {
		var big []corpus.Sample
		for _, b := range corpus.MaxSize(200 * 1024) {
			if b.Size >= 70*1024 {
				big = append(big, b)
			}
		}
		if len(big) > 0 {
			s = big[t.Intn(len(big))]
		} else {
			large = false
		}
	}
	data := corpus.Data(s)
	errorsCfg := rc.Config == "errors"
	prop := rc.PropOr("C01", "C05")
	knobs := map[string]int{"cacheReadAheadSize": aheadKnobs[t.Intn(len(aheadKnobs))], "progressPrecision": precKnobs[t.Intn(len(precKnobs))]}
	if large {
		// hundreds of KiB through a one-byte read-ahead or a per-byte progress callback cost
		// minutes of scheduling: the large runs keep the block sizes a real run has
		knobs["cacheReadAheadSize"] = []int{4096, 512 * 1024}[knobs["cacheReadAheadSize"]%2]
		knobs["progressPrecision"] = 1024
	}
	g := &algGen{t: t, counts: map[string]int{}}
	nExpr := 2 + t.Intn(4)
	var exprs []*algNode
	var idx []int
	for i := 0; i < nExpr; i++ {
		exprs = append(exprs, g.binary(3))
		idx = append(idx, t.Intn(16))
	}
	if large {
		// the whole of a big file (> 64 KiB: more than the copy buffers between a binary and its
		// consumer) cut at bit positions and padded: (v(0) | tobits | cut | tobytes)
		g.nAtoms++
		bitsOf := &algNode{kind: "conv", unit: 1, items: []*algNode{{kind: "val", k: 0}}}
		cut := &algNode{kind: "cut", items: []*algNode{bitsOf}, p: 1 + t.Intn(7), q: t.Intn(8)}
		exprs = []*algNode{{kind: "conv", unit: 8, items: []*algNode{cut}}}
		idx = idx[:1]
		nExpr = 1
		g.counts["large"]++
	}
	var atoms []int
	for _, e := range exprs {
		e.atoms(&atoms)
	}
	var sb strings.Builder
	sb.WriteString(algDefs)
	nList := 400
	if large {
		nList = 1 // the root only
	}
	sb.WriteString(fmt.Sprintf(` [limit(%d; .. | select(_is_decode_value? and ((._buffer_root | ._path) == []) and ._stop > ._start))] as $v |`, nList))
	// every other atom comes from the values that are not byte aligned, where the sample has any
	if large {
		sb.WriteString(` [] as $u |`) // no walk of a big tree
	} else {
		sb.WriteString(` [limit(200; .. | select(_is_decode_value? and ((._buffer_root | ._path) == []) and ._stop > ._start and (._start % 8 != 0 or ._stop % 8 != 0)))] as $u |`)
	}
	sb.WriteString(` def v($k): if $k % 2 == 1 and ($u | length) > 0 then $u[$k % ($u | length)] else $v[$k % ($v | length)] end;`)
	var as []string
	for _, k := range atoms {
		as = append(as, fmt.Sprintf("v(%d)", k))
	}
	sb.WriteString(` ([` + strings.Join(as, ", ") + `] | map([._start, ._stop]) | tojson)`)
	for i, e := range exprs {
		sb.WriteString(fmt.Sprintf(", (%s | out(%d))", e.text(), idx[i]))
	}
	prog := sb.String()

	o := simos.New(t)
	o.Disk.Benign = true
	o.Disk.Errors = errorsCfg
	o.AddFile("sample", simos.Regular, data)
	args := []string{"fq"}
	if s.Format != "" {
		args = append(args, "-d", s.Format)
	}
	for _, kv := range s.Opts {
		args = append(args, "-o", kv)
	}
	args = append(args, "-r", prog, "sample")
	o.ArgsV = args
	run := runFQ(t, o, fqOpts{Policy: -1, Knobs: knobs, Fine: t.Intn(4) == 0})
	run.account(res, o)
	res.Fingerprint = fnv64(run.Stats.Fingerprint, []byte(s.Rel+s.Format+prog))
	res.Sample = map[string]any{"sample": s.Rel, "format": s.Format, "exprs": nExpr, "atoms": len(atoms), "knobs": fmt.Sprint(knobs), "policy": run.Stats.Policy, "exit": run.Res.Exit, "disk_calls": o.Disk.Calls}
	res.Probes["disk_calls"] += o.Disk.Calls
	what := fmt.Sprintf("fq %s (%s)", strings.Join(args[1:], " "), s.Rel)
	if !run.abnormal(res, prop, what) {
		return res
	}
	viol := func(oracle, key, f string, a ...any) {
		res.Violate(prop, oracle, key, fmt.Sprintf(f, a...)+"\n  "+what+fmt.Sprintf("\n  knobs %v policy %s exit %d stderr %q", knobs, run.Stats.Policy, run.Res.Exit, firstN(string(run.Res.Stderr), 300)))
		if res.Trace == nil {
			res.Trace = run.Trace
		}
	}
	failed := run.Res.Exit != 0
	faulted := o.Disk.Fired()
	if failed && !faulted {
		res.Probes["sample_not_decodable"]++
		return res
	}
	if faulted {
		res.Probes["runs_with_error_fault"]++
	}
	lines := strings.Split(strings.TrimSuffix(string(run.Res.Stdout), "\n"), "\n")
	if len(lines) == 1 && lines[0] == "" {
		lines = nil
	}
	if len(lines) < 1+nExpr && !failed {
		viol("output-missing", "lines", "%d of %d output lines and exit status 0", len(lines), 1+nExpr)
		return res
	}
	if len(lines) == 0 {
		return res
	}
	var rangesOut [][]float64
	if err := json.Unmarshal([]byte(lines[0]), &rangesOut); err != nil || len(rangesOut) != len(atoms) {
		if faulted && len(lines) == 1 {
			return res // a cut first line after an injected error
		}
		viol("bad-listing", "ranges", "first line does not hold %d ranges: %q", len(atoms), firstN(lines[0], 200))
		return res
	}
	fileBits := model.FromBytes(data, int64(len(data))*8)
	byAtom := map[int]model.Bits{}
	for i, r := range rangesOut {
		if len(r) != 2 || r[0] < 0 || r[1] < r[0] || int64(r[1]) > int64(len(fileBits)) {
			if faulted {
				res.Probes["range_outside_input_after_fault"]++
				return res
			}
			viol("range-outside-input", "range", "value %d reports range %v outside the %d input bits", atoms[i], r, len(fileBits))
			return res
		}
		b := fileBits.Slice(int64(r[0]), int64(r[1]))
		if prev, ok := byAtom[atoms[i]]; ok && len(prev) != len(b) {
			viol("bad-listing", "ranges", "the same value reports two ranges")
			return res
		}
		byAtom[atoms[i]] = b
		if len(b)%8 != 0 || int64(r[0])%8 != 0 {
			res.Probes["unaligned_values"]++
		}
	}
	valBits := func(k int) model.Bits { return byAtom[k] }
	checked := 0
	for i, e := range exprs {
		if 1+i >= len(lines) {
			break
		}
		line := lines[1+i]
		var row []any
		if err := json.Unmarshal([]byte(line), &row); err != nil || len(row) != 3 {
			if faulted && 1+i == len(lines)-1 {
				break
			}
			viol("bad-listing", "parse", "line %d does not parse: %q", 1+i, firstN(line, 200))
			return res
		}
		bits, unit := e.eval(valBits)
		wantLen := float64(len(bits))
		pad := (8 - int64(len(bits))%8) % 8
		wantHex := hex.EncodeToString(model.Concat(model.Zeros(pad), bits).Bytes())
		var wantIdx any
		if l := int64(len(bits)) / int64(unit); l > 0 {
			at := (l * int64(idx[i]) / 16) % l
			u := bits.Slice(at*int64(unit), (at+1)*int64(unit))
			v := 0
			for _, b := range u {
				v = v<<1 | int(b)
			}
			wantIdx = float64(v)
		}
		kind := e.kind
		if gl, _ := row[0].(float64); gl != wantLen {
			viol("wrong-length", kind, "expression %d %s: %v bits, the model gives %v", i, e.text(), row[0], wantLen)
			return res
		}
		if gh, _ := row[1].(string); gh != wantHex {
			viol("wrong-bits", kind, "expression %d %s: bytes %s, the input bits give %s (first difference at hex digit %d)", i, e.text(), firstN(gh, 120), firstN(wantHex, 120), firstDiff([]byte(gh), []byte(wantHex)))
			return res
		}
		if !jsonEqual(row[2], wantIdx) {
			viol("wrong-bits", "index", "expression %d %s: unit at index is %v, the input bits give %v", i, e.text(), row[2], wantIdx)
			return res
		}
		if len(bits) > 0 {
			checked++
		}
		if len(bits)%8 != 0 {
			res.Probes["unaligned_results"]++
		}
	}
	for k, c := range g.counts {
		res.Probes["alg_"+k] += c
	}
	res.Probes["expressions_checked"] += checked
	res.Nontrivial = checked > 0
	return res
}
