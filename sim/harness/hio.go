package harness

import (
	"context"
	"errors"
	"fmt"
	"io"
	"strings"
	"time"

	"github.com/wader/fq/internal/aheadreadseeker"
	"github.com/wader/fq/internal/bitiox"
	"github.com/wader/fq/internal/ctxreadseeker"
	"github.com/wader/fq/internal/progressreadseeker"
	"github.com/wader/fq/internal/simrt"
	"github.com/wader/fq/pkg/bitio"
	"github.com/wader/fq/zzverif/sim/core"
	"github.com/wader/fq/zzverif/sim/model"
)

// H-IO: component harness for C01 (DESIGN §3 C01). Real: pkg/bitio,
// internal/bitiox, aheadreadseeker, progressreadseeker, ctxreadseeker
// (instrumented). Stub: the disk (io.ReadSeeker) and the sink (io.Writer).
// Configurations: "benign" (short/zero reads, latency, pre-emption) demands
// exactness; "errors" adds transient/persistent EIO and cancellation and
// relaxes narrowly: an operation may fail, never return wrong bits.

const (
	siteDiskRead = 60100 + iota
	siteDiskSeek
	siteIOClient
	siteIOCancel
	siteSinkWrite
)

func init() {
	simrt.RegisterSite(siteDiskRead, "disk:read")
	simrt.RegisterSite(siteDiskSeek, "disk:seek")
	simrt.RegisterSite(siteIOClient, "hio:client")
	simrt.RegisterSite(siteIOCancel, "hio:cancel")
	simrt.RegisterSite(siteSinkWrite, "sink:write")
	core.Register(&hio{})
}

type hio struct{}

func (*hio) Name() string { return "hio" }

var errEIO = errors.New("simulated EIO")

// simDisk is the simulated disk under a file stack.
const (
	dfPersistentCall = iota
	dfTransient
	dfPersistent
	dfShort
	dfZero
	dfLatency
	dfSeekEIO
	numDiskFaults
)

var diskFaultNames = [...]string{"disk_eio_persistent_call", "disk_eio_transient", "disk_eio_persistent", "disk_short_read", "disk_zero_read", "disk_latency", "disk_seek_eio"}

// simDisk is touched by whichever task performs the I/O (with a ctx layer
// that is the ctxreadseeker loop goroutine, possibly after its caller gave
// up): its own state is kept out of the race detector's view.
type simDisk struct {
	counts     [numDiskFaults]int
	data       []byte
	pos        int64
	t          *simrt.Tape
	res        *core.RunResult
	errors     bool // error-class faults allowed
	persistent bool // every call fails from now on
	calls      int
	faulty     bool // an error-class fault has fired on this disk
}

//go:norace
func (d *simDisk) Read(p []byte) (int, error) {
	simrt.Yield(siteDiskRead)
	d.calls++
	if d.persistent {
		d.counts[dfPersistentCall]++
		return 0, errEIO
	}
	k := d.t.Intn(32)
	if d.errors {
		switch k {
		case 31:
			d.counts[dfTransient]++
			d.faulty = true
			return 0, errEIO
		case 30:
			if d.t.Intn(4) == 0 {
				d.counts[dfPersistent]++
				d.persistent, d.faulty = true, true
				return 0, errEIO
			}
		}
	}
	if d.pos >= int64(len(d.data)) {
		return 0, io.EOF
	}
	n := len(p)
	if int64(n) > int64(len(d.data))-d.pos {
		n = int(int64(len(d.data)) - d.pos)
	}
	switch {
	case k >= 20 && k < 26 && n > 1:
		n = 1 + d.t.Intn(n-1)
		d.counts[dfShort]++
	case k == 26 && len(p) > 0:
		if d.t.Intn(4) == 0 {
			d.counts[dfZero]++
			return 0, nil
		}
	case k == 27:
		simrt.Advance(time.Duration(1e6 * (1 + int64Dur(d.t.Intn(50)))))
		d.counts[dfLatency]++
	}
	copy(p, d.data[d.pos:d.pos+int64(n)])
	d.pos += int64(n)
	return n, nil
}

//go:norace
func (d *simDisk) Seek(off int64, whence int) (int64, error) {
	simrt.Yield(siteDiskSeek)
	d.calls++
	if d.persistent {
		d.counts[dfPersistentCall]++
		return 0, errEIO
	}
	if d.errors && d.t.Intn(64) == 63 {
		d.counts[dfSeekEIO]++
		d.faulty = true
		return 0, errEIO
	}
	var abs int64
	switch whence {
	case io.SeekStart:
		abs = off
	case io.SeekCurrent:
		abs = d.pos + off
	case io.SeekEnd:
		abs = int64(len(d.data)) + off
	default:
		return 0, errors.New("simDisk.Seek: invalid whence")
	}
	if abs < 0 {
		return 0, errors.New("simDisk.Seek: negative position")
	}
	d.pos = abs
	return abs, nil
}

//go:norace
func (d *simDisk) isFaulty() bool { return d.faulty }

//go:norace
func (d *simDisk) mergeCounts(res *core.RunResult) {
	for i, c := range d.counts {
		if c > 0 {
			res.Faults[diskFaultNames[i]] += c
		}
	}
}

type ioNode struct {
	kind     string
	r        any // bitio.ReaderAtSeeker for most, bitio.ReadAtSeeker for zero
	bits     model.Bits
	pos      int64
	posKnown bool
	faulty   func() bool // depends on a disk that has seen an error-class fault / cancel
	desc     string
	stalls   int
}

type hioRun struct {
	t         *simrt.Tape
	res       *core.RunResult
	cfgErr    bool
	nodes     []*ioNode
	disks     []*simDisk
	ctx       context.Context
	cancel    context.CancelFunc
	hasCtx    bool
	cancelled func() bool
	log       []string
	violated  bool
	nCancel   int
}

func (h *hioRun) violate(oracle, key, f string, a ...any) {
	if h.violated {
		return
	}
	h.violated = true
	h.res.Violate("C01", oracle, key, fmt.Sprintf(f, a...)+"\n  ops: "+strings.Join(h.log, "; "))
}

func (h *hioRun) randBytes(n int) []byte {
	b := make([]byte, n)
	mode := h.t.Intn(4)
	for i := range b {
		switch mode {
		case 0:
			b[i] = byte(h.t.Intn(256))
		case 1:
			b[i] = byte(i*37 + 11)
		case 2:
			b[i] = 0xff
		default:
			b[i] = byte(h.t.Intn(2) * 0xa5)
		}
	}
	return b
}

var hioSizes = []int{0, 1, 2, 3, 7, 8, 9, 16, 31, 64, 100, 255, 512, 513, 1000, 4096, 5000}

func (h *hioRun) pickSize() int {
	if h.t.Intn(40) == 0 {
		return 32*1024 + h.t.Intn(40*1024)
	}
	return hioSizes[h.t.Intn(len(hioSizes))] + h.t.Intn(3)
}

func (h *hioRun) notFaulty() bool { return false }

// leaf builds a leaf node.
func (h *hioRun) leaf() *ioNode {
	switch h.t.Intn(5) {
	case 0: // in-memory bit reader, any bit length
		b := h.randBytes(h.pickSize())
		n := int64(len(b)) * 8
		if n > 0 && h.t.Intn(2) == 0 {
			n -= int64(h.t.Intn(8))
		}
		if n > 0 && h.t.Intn(6) == 0 {
			n = int64(h.t.Intn(int(n)))
		}
		return &ioNode{kind: "bitreader", r: bitio.NewBitReader(b, n), bits: model.FromBytes(b, n), posKnown: true, faulty: h.notFaulty, desc: fmt.Sprintf("bitreader(%dbits)", n)}
	case 1: // zero reader, used as a multi child or through read-at
		n := int64(h.t.Intn(200))
		if h.t.Intn(4) == 0 {
			n = int64(h.t.Intn(5000))
		}
		return &ioNode{kind: "zero", r: bitiox.NewZeroAtSeeker(n), bits: model.Zeros(n), posKnown: true, faulty: h.notFaulty, desc: fmt.Sprintf("zero(%d)", n)}
	default:
		return h.fileStack()
	}
}

var minReads = []int{1, 2, 3, 8, 64, 512, 4096}

func (h *hioRun) fileStack() *ioNode {
	b := h.randBytes(h.pickSize())
	d := &simDisk{data: b, t: h.t, res: h.res, errors: h.cfgErr}
	h.disks = append(h.disks, d)
	var rs io.ReadSeeker = d
	desc := "disk"
	// every disk call under a ctx layer costs ~30 scheduling points: keep those files small
	useCtx := h.t.Intn(3) == 0 && len(b) <= 6000
	if useCtx {
		hioSetHasCtx(h)
		rs = ctxreadseeker.New(h.ctx, rs)
		desc = "ctx(" + desc + ")"
		simrt.Probe(probeCtxLayer)
	}
	if h.t.Intn(2) == 0 {
		prec := int64([]int{1, 16, 1024}[h.t.Intn(3)])
		total := int64(len(b))
		if total == 0 {
			total = 1 // fq itself never builds a progress reader over... (see DESIGN: empty file case is covered by H-SYS)
		}
		rs = progressreadseeker.New(rs, prec, total, func(int64, int64) { simrt.Probe(probeProgressFn) })
		desc = "progress(" + desc + ")"
	}
	if h.t.Intn(3) != 0 {
		mr := minReads[h.t.Intn(len(minReads))]
		rs = aheadreadseeker.New(rs, mr)
		desc = fmt.Sprintf("ahead%d(%s)", mr, desc)
	}
	br := bitio.NewIOBitReadSeeker(rs)
	n := int64(len(b)) * 8
	faulty := func() bool { return d.isFaulty() || (useCtx && h.cancelled()) }
	if h.t.Intn(2) == 0 {
		// clamped the way Binary does it
		rr, err := bitiox.Range(br, 0, n)
		if err != nil {
			if !faulty() {
				h.violate("unexpected-error", "bitiox.Range", "bitiox.Range over a %d byte file failed: %v", len(b), err)
			}
			return &ioNode{kind: "file", r: br, bits: model.FromBytes(b, n), faulty: faulty, desc: "iobit(" + desc + ")"}
		}
		return &ioNode{kind: "file", r: rr, bits: model.FromBytes(b, n), posKnown: true, faulty: faulty, desc: "range(iobit(" + desc + "))"}
	}
	return &ioNode{kind: "file", r: br, bits: model.FromBytes(b, n), posKnown: true, faulty: faulty, desc: "iobit(" + desc + ")"}
}

const (
	probeCtxLayer = iota
	probeProgressFn
	probeMultiStraddle
	probeSectionClamp
	probeBigRead
	probeUnalignedAt
	probeEOFWithBits
	probeSeekEnd
	probeSeekCur
	probeClone
	probeByteView
	probeWriter
	probeCancelSeen
	probeResync
	probeReadFull
	numHioProbes
)

var hioProbeNames = [...]string{"ctx_layer", "progress_fn", "multi_child", "section_clamp", "big_read", "unaligned_readat", "eof_with_bits", "seek_end", "seek_current", "clone", "byte_view", "bit_writer", "cancel_observed", "resync_after_fault", "read_full"}

// build makes an inner node over existing nodes (or a leaf).
func (h *hioRun) build(depth int) *ioNode {
	if depth <= 0 || h.t.Intn(3) == 0 {
		return h.leaf()
	}
	switch h.t.Intn(4) {
	case 0: // section of a child
		c := h.build(depth - 1)
		L := int64(len(c.bits))
		off := int64(0)
		if L > 0 {
			off = int64(h.t.Intn(int(L) + 1))
		}
		n := int64(0)
		if L-off > 0 {
			switch h.t.Intn(3) {
			case 0:
				n = L - off
			default:
				n = int64(h.t.Intn(int(L-off) + 1))
			}
		}
		ra, ok := c.r.(bitio.ReaderAt)
		if !ok {
			return c
		}
		simrt.Probe(probeSectionClamp)
		return &ioNode{kind: "section", r: bitio.NewSectionReader(ra, off, n), bits: append(model.Bits{}, c.bits.Slice(off, off+n)...), posKnown: true, faulty: c.faulty, desc: fmt.Sprintf("section(%s,%d,%d)", c.desc, off, n)}
	case 1: // concatenation
		k := h.t.Intn(4)
		var rs []bitio.ReadAtSeeker
		var parts []model.Bits
		var descs []string
		var fs []func() bool
		for i := 0; i < k; i++ {
			c := h.build(depth - 1)
			ras, ok := c.r.(bitio.ReadAtSeeker)
			if !ok {
				continue
			}
			rs = append(rs, ras)
			parts = append(parts, c.bits)
			descs = append(descs, c.desc)
			fs = append(fs, c.faulty)
		}
		faulty := func() bool {
			for _, f := range fs {
				if f() {
					return true
				}
			}
			return false
		}
		m, err := bitio.NewMultiReader(rs...)
		if err != nil {
			if !faulty() {
				h.violate("unexpected-error", "NewMultiReader", "NewMultiReader failed: %v", err)
			}
			return h.leaf()
		}
		simrt.Probe(probeMultiStraddle)
		return &ioNode{kind: "multi", r: m, bits: model.Concat(parts...), posKnown: true, faulty: faulty, desc: "multi(" + strings.Join(descs, ",") + ")"}
	case 2: // byte round trip: must equal the child zero padded to a byte
		c := h.build(depth - 1)
		crs, ok := c.r.(bitio.ReadSeeker)
		if !ok || len(c.bits)%8 != 0 {
			// a byte view over a source with a partial last byte is only read
			// forward (byteView); where its "end" is for seeking is not defined
			return c
		}
		// the child's cursor is now owned by the byte view: start from 0
		if _, err := crs.SeekBits(0, io.SeekStart); err != nil {
			return c
		}
		simrt.Probe(probeByteView)
		return &ioNode{kind: "roundtrip", r: bitio.NewIOBitReadSeeker(bitio.NewIOReadSeeker(crs)), bits: c.bits.PadToByte(), posKnown: true, faulty: c.faulty, desc: "iobit(ioreadseeker(" + c.desc + "))"}
	default: // clone
		c := h.build(depth - 1)
		ras, ok := c.r.(bitio.ReadAtSeeker)
		if !ok {
			return c
		}
		cl, err := bitio.CloneReaderAtSeeker(ras)
		if err != nil {
			return c
		}
		simrt.Probe(probeClone)
		return &ioNode{kind: "clone", r: cl, bits: c.bits, posKnown: true, faulty: c.faulty, desc: "clone(" + c.desc + ")"}
	}
}

var readSizes = []int64{0, 1, 2, 3, 4, 5, 7, 8, 9, 12, 15, 16, 17, 24, 31, 32, 33, 48, 63, 64, 65, 72, 127, 128, 129, 255, 256, 257, 1000, 4095, 4096}

func (h *hioRun) pickBits(L int64) int64 {
	switch h.t.Intn(12) {
	case 0:
		return 8 * int64(h.t.Intn(600))
	case 1:
		return max64(0, 8*int64(h.t.Intn(600))+int64(h.t.Intn(3))-1)
	case 2:
		if h.t.Intn(4) == 0 {
			simrt.Probe(probeBigRead)
			return 32*1024*8 + int64(h.t.Intn(17)) - 8
		}
		return L
	case 3:
		return L + int64(h.t.Intn(20))
	}
	return readSizes[h.t.Intn(len(readSizes))]
}

func (h *hioRun) pickOff(L int64) int64 {
	switch h.t.Intn(8) {
	case 0:
		return 0
	case 1:
		return L
	case 2:
		if L > 64 {
			return L - int64(h.t.Intn(64))
		}
		return int64(h.t.Intn(int(L) + 1))
	case 3:
		return L + int64(h.t.Intn(10))
	case 4:
		return 8 * int64(h.t.Intn(int(L/8)+1))
	case 5:
		b := []int64{512 * 8, 4096 * 8, 64 * 8, 32768 * 8}[h.t.Intn(4)]
		return max64(0, b+int64(h.t.Intn(17))-8)
	}
	return int64(h.t.Intn(int(L) + 1))
}

func max64(a, b int64) int64 {
	if a > b {
		return a
	}
	return b
}

func int64Dur(i int) int64 { return int64(i) }

func isEOF(err error) bool { return errors.Is(err, io.EOF) }

// checkRead is the per-read oracle.
func (h *hioRun) checkRead(n *ioNode, what string, want int64, off int64, p []byte, cnt int64, err error) (ok bool) {
	L := int64(len(n.bits))
	if err != nil && !isEOF(err) {
		if n.faulty() || (h.cfgErr && h.hasCtx && h.cancelled()) {
			// error class: the operation may fail, but what it returned must still be right
			if cnt > 0 && (off+cnt > L || !n.bits.EqualPacked(off, p, cnt)) {
				h.violate("wrong-bits-with-error", n.kind, "%s on %s: returned %d bits with error %v that differ from the data", what, n.desc, cnt, err)
			}
			return false
		}
		if off > L && cnt == 0 {
			return false // past-the-end offsets may be rejected with an offset error
		}
		h.violate("unexpected-error", n.kind, "%s on %s (len %d) at %d want %d: error %v without any fault", what, n.desc, L, off, want, err)
		return false
	}
	if cnt < 0 || cnt > want {
		h.violate("count-out-of-range", n.kind, "%s on %s: asked %d bits, got count %d", what, n.desc, want, cnt)
		return false
	}
	if cnt > 0 && off+cnt > L {
		h.violate("bits-beyond-end", n.kind, "%s on %s (len %d): %d bits at %d reach beyond the logical end", what, n.desc, L, cnt, off)
		return false
	}
	if cnt > 0 && !n.bits.EqualPacked(off, p, cnt) {
		h.violate("wrong-bits", n.kind, "%s on %s (len %d): %d bits at %d: got %s want %s", what, n.desc, L, cnt, off, model.FromBytes(p, cnt).String(), n.bits.Slice(off, off+cnt).String())
		return false
	}
	if isEOF(err) {
		if off+cnt < L {
			h.violate("premature-eof", n.kind, "%s on %s (len %d): EOF after %d bits at %d, before the logical end", what, n.desc, L, cnt, off)
			return false
		}
		if cnt > 0 {
			simrt.Probe(probeEOFWithBits)
		}
	} else {
		if cnt == 0 && want > 0 {
			if off >= L {
				n.stalls++
				if n.stalls > 3 {
					h.violate("no-eof-at-end", n.kind, "%s on %s (len %d): reads at %d keep returning 0 bits without EOF", what, n.desc, L, off)
					return false
				}
			} else {
				n.stalls++
				if n.stalls > 3 {
					h.violate("no-progress", n.kind, "%s on %s (len %d): reads at %d keep returning 0 bits without error", what, n.desc, L, off)
					return false
				}
			}
		} else {
			n.stalls = 0
		}
	}
	return true
}

func (h *hioRun) resync(n *ioNode) {
	s, ok := n.r.(bitio.Seeker)
	if !ok {
		return
	}
	L := int64(len(n.bits))
	target := int64(0)
	if L > 0 {
		target = int64(h.t.Intn(int(L) + 1))
	}
	got, err := s.SeekBits(target, io.SeekStart)
	h.log = append(h.log, fmt.Sprintf("resync %s -> %d,%v", n.kind, got, err))
	if err != nil {
		if !n.faulty() {
			h.violate("unexpected-error", n.kind, "SeekBits(%d, start) on %s (len %d) failed without fault: %v", target, n.desc, L, err)
		}
		n.posKnown = false
		return
	}
	if got != target {
		h.violate("wrong-seek-result", n.kind, "SeekBits(%d, start) on %s returned %d", target, n.desc, got)
		return
	}
	n.pos, n.posKnown = target, true
	simrt.Probe(probeResync)
}

func (h *hioRun) op(n *ioNode) {
	L := int64(len(n.bits))
	t := h.t
	kind := t.Intn(16)
	switch {
	case kind < 4: // ReadBits
		r, ok := n.r.(bitio.Reader)
		if !ok {
			return
		}
		if !n.posKnown {
			h.resync(n)
			return
		}
		want := h.pickBits(L)
		p := make([]byte, want/8+2)
		cnt, err := r.ReadBits(p, want)
		h.log = append(h.log, fmt.Sprintf("%s.ReadBits(%d)@%d=%d,%v", n.kind, want, n.pos, cnt, err))
		if h.checkRead(n, "ReadBits", want, n.pos, p, cnt, err) {
			n.pos += cnt
		} else {
			n.posKnown = false
		}
	case kind < 8: // ReadBitsAt
		r, ok := n.r.(bitio.ReaderAt)
		if !ok {
			return
		}
		want := h.pickBits(L)
		off := h.pickOff(L)
		if _, isSection := n.r.(*bitio.SectionReader); isSection && t.Intn(12) == 0 {
			// a sub-range must not hand out what lies in front of it: a negative offset
			// (fq reaches this with offsets computed from corrupt input) yields no bits
			neg := -1 - int64(t.Intn(200))
			p := make([]byte, want/8+2)
			cnt, err := r.ReadBitsAt(p, want, neg)
			h.log = append(h.log, fmt.Sprintf("%s.ReadBitsAt(%d,%d)=%d,%v", n.kind, want, neg, cnt, err))
			if cnt != 0 {
				h.violate("bits-before-start", n.kind, "ReadBitsAt(%d bits at %d) on %s returned %d bits from in front of the sub-range (err %v)", want, neg, n.desc, cnt, err)
			}
			return
		}
		if off%8 != 0 {
			simrt.Probe(probeUnalignedAt)
		}
		p := make([]byte, want/8+2)
		cnt, err := r.ReadBitsAt(p, want, off)
		h.log = append(h.log, fmt.Sprintf("%s.ReadBitsAt(%d,%d)=%d,%v", n.kind, want, off, cnt, err))
		h.checkRead(n, "ReadBitsAt", want, off, p, cnt, err)
		// a read-at never moves the cursor: later cursor reads check that
	case kind < 11: // SeekBits
		s, ok := n.r.(bitio.Seeker)
		if !ok {
			return
		}
		whence := t.Intn(3)
		var base int64
		switch whence {
		case io.SeekStart:
			base = 0
		case io.SeekCurrent:
			if !n.posKnown {
				h.resync(n)
				return
			}
			base = n.pos
			simrt.Probe(probeSeekCur)
		case io.SeekEnd:
			base = L
			simrt.Probe(probeSeekEnd)
		}
		var target int64
		switch t.Intn(6) {
		case 0:
			target = -1 - int64(t.Intn(20))
		case 1:
			target = L + 1 + int64(t.Intn(20))
		default:
			target = h.pickOff(L)
		}
		off := target - base
		got, err := s.SeekBits(off, whence)
		h.log = append(h.log, fmt.Sprintf("%s.SeekBits(%d,%d)=%d,%v", n.kind, off, whence, got, err))
		switch {
		case err != nil && n.faulty():
			n.posKnown = false
		case target < 0:
			// outside every reader's documented domain: whatever it answers, the
			// cursor is re-established by an absolute seek before it is used again
			n.posKnown = false
		case target > L:
			// types differ on whether seeking past the end is allowed
			if err == nil {
				if got != target {
					h.violate("wrong-seek-result", n.kind, "SeekBits(%d, %d) on %s (len %d, cursor %d) returned %d, want %d", off, whence, n.desc, L, n.pos, got, target)
				}
				n.pos, n.posKnown = target, true
			} else {
				n.posKnown = false
			}
		default:
			if err != nil {
				h.violate("unexpected-error", n.kind, "SeekBits(%d, %d) on %s (len %d, cursor %d) failed without fault: %v", off, whence, n.desc, L, n.pos, err)
				return
			}
			if got != target {
				h.violate("wrong-seek-result", n.kind, "SeekBits(%d, %d) on %s (len %d, cursor %d) returned %d, want %d", off, whence, n.desc, L, n.pos, got, target)
				return
			}
			n.pos, n.posKnown = target, true
		}
	case kind == 11: // ReadFull / ReadAtFull
		simrt.Probe(probeReadFull)
		want := h.pickBits(L)
		if want > 40000 {
			want = 4096
		}
		p := make([]byte, want/8+2)
		if ra, ok := n.r.(bitio.ReaderAt); ok && t.Intn(2) == 0 {
			off := h.pickOff(L)
			_, err := bitio.ReadAtFull(ra, p, want, off)
			h.log = append(h.log, fmt.Sprintf("%s.ReadAtFull(%d,%d)=%v", n.kind, want, off, err))
			h.checkFull(n, "ReadAtFull", want, off, p, err)
		} else if r, ok := n.r.(bitio.Reader); ok && n.posKnown {
			_, err := bitio.ReadFull(r, p, want)
			h.log = append(h.log, fmt.Sprintf("%s.ReadFull(%d)@%d=%v", n.kind, want, n.pos, err))
			if h.checkFull(n, "ReadFull", want, n.pos, p, err) {
				n.pos += want
			} else {
				n.posKnown = false
			}
		}
	case kind == 12: // clone, then operate on both
		ras, ok := n.r.(bitio.ReadAtSeeker)
		if !ok || len(h.nodes) > 12 {
			return
		}
		cl, err := bitio.CloneReaderAtSeeker(ras)
		if err != nil {
			return
		}
		simrt.Probe(probeClone)
		h.log = append(h.log, "clone "+n.kind)
		h.nodes = append(h.nodes, &ioNode{kind: "clone", r: cl, bits: n.bits, posKnown: true, faulty: n.faulty, desc: "clone(" + n.desc + ")"})
	case kind == 13: // byte view: io.Reader / io.ReadSeeker over the node
		if t.Intn(3) == 0 {
			h.bufferPipe(n)
		} else {
			h.byteView(n)
		}
	case kind == 14: // bit copy into a buffer / a bit writer
		h.copyOut(n)
	default: // limit reader over a clone
		ras, ok := n.r.(bitio.ReadAtSeeker)
		if !ok {
			return
		}
		cl, err := bitio.CloneReaderAtSeeker(ras)
		if err != nil {
			return
		}
		lim := int64(0)
		if L > 0 {
			lim = int64(t.Intn(int(L) + 9))
		}
		lr := bitio.NewLimitReader(cl, lim)
		lb := n.bits.Slice(0, lim)
		ln := &ioNode{kind: "limit", r: lr, bits: lb, posKnown: true, faulty: n.faulty, desc: fmt.Sprintf("limit(clone(%s),%d)", n.desc, lim)}
		h.log = append(h.log, fmt.Sprintf("limit(%d) over %s", lim, n.kind))
		for i := 0; i < 6 && ln.posKnown && !h.violated; i++ {
			want := h.pickBits(int64(len(lb)))
			p := make([]byte, want/8+2)
			cnt, err := lr.ReadBits(p, want)
			h.log = append(h.log, fmt.Sprintf("limit.ReadBits(%d)@%d=%d,%v", want, ln.pos, cnt, err))
			if h.checkRead(ln, "LimitReader.ReadBits", want, ln.pos, p, cnt, err) {
				ln.pos += cnt
			} else {
				ln.posKnown = false
			}
		}
	}
}

func (h *hioRun) checkFull(n *ioNode, what string, want, off int64, p []byte, err error) bool {
	L := int64(len(n.bits))
	have := L - off
	if err != nil && !isEOF(err) && !errors.Is(err, io.ErrUnexpectedEOF) {
		if n.faulty() {
			return false
		}
		if off > L {
			return false
		}
		h.violate("unexpected-error", n.kind, "%s(%d) at %d on %s (len %d): error %v without fault", what, want, off, n.desc, L, err)
		return false
	}
	if have >= want {
		if err != nil && !(isEOF(err) && off+want == L) {
			h.violate("premature-eof", n.kind, "%s(%d) at %d on %s (len %d): %v although the bits exist", what, want, off, n.desc, L, err)
			return false
		}
		if want > 0 && !n.bits.EqualPacked(off, p, want) {
			h.violate("wrong-bits", n.kind, "%s(%d) at %d on %s (len %d): got %s want %s", what, want, off, n.desc, L, model.FromBytes(p, want).String(), n.bits.Slice(off, off+want).String())
			return false
		}
		return err == nil
	}
	if err == nil && want > 0 {
		h.violate("bits-beyond-end", n.kind, "%s(%d) at %d on %s (len %d): success although only %d bits exist", what, want, off, n.desc, L, have)
	}
	return false
}

var byteBufSizes = []int{1, 2, 3, 7, 512}

// byteView reads the rest of the node through bitio.IOReader / IOReadSeeker.
func (h *hioRun) byteView(n *ioNode) {
	ras, ok := n.r.(bitio.ReadAtSeeker)
	if !ok {
		return
	}
	cl, err := bitio.CloneReaderAtSeeker(ras)
	if err != nil {
		return
	}
	simrt.Probe(probeByteView)
	L := int64(len(n.bits))
	padded := n.bits.PadToByte().Bytes()
	nb := int64(len(padded))
	bs := byteBufSizes[h.t.Intn(len(byteBufSizes))]
	if h.t.Intn(2) == 0 {
		// plain io.Reader over the clone from a tape-chosen bit position
		start := int64(0)
		if L > 0 {
			start = int64(h.t.Intn(int(L) + 1))
		}
		if _, err := cl.SeekBits(start, io.SeekStart); err != nil {
			if !n.faulty() {
				h.violate("unexpected-error", n.kind, "SeekBits(%d) on clone of %s failed: %v", start, n.desc, err)
			}
			return
		}
		want := n.bits.Slice(start, L).PadToByte().Bytes()
		ior := bitio.NewIOReader(cl)
		got, err := readAllBuf(ior, bs, len(want)+16)
		h.log = append(h.log, fmt.Sprintf("%s: IOReader from bit %d buf %d = %d bytes,%v", n.kind, start, bs, len(got), err))
		if err != nil {
			if !n.faulty() {
				h.violate("unexpected-error", n.kind, "IOReader over %s from bit %d: %v", n.desc, start, err)
			} else if !bytesPrefix(want, got) {
				h.violate("wrong-bits-with-error", n.kind, "IOReader over %s from bit %d returned bytes that differ from the data before failing", n.desc, start)
			}
			return
		}
		if string(got) != string(want) {
			h.violate("wrong-bytes", n.kind+":ioreader", "IOReader over %s (len %d) from bit %d with %d byte buffers: got %d bytes %x want %d bytes %x", n.desc, L, start, bs, len(got), trunc(got), len(want), trunc(want))
		}
		return
	}
	// io.ReadSeeker: seek to byte positions and read some
	irs := bitio.NewIOReadSeeker(cl)
	pos := int64(0)
	posKnown := true
	for i := 0; i < 6 && !h.violated; i++ {
		if h.t.Intn(2) == 0 || !posKnown {
			whence := h.t.Intn(3)
			if L%8 != 0 {
				// with a partial last byte the byte positions "end" and "current after the
				// padded byte" have no bit position behind them: only absolute seeks to whole bytes
				whence = io.SeekStart
			}
			if whence == io.SeekCurrent && !posKnown {
				whence = io.SeekStart
			}
			var base int64
			switch whence {
			case io.SeekCurrent:
				base = pos
			case io.SeekEnd:
				base = nb
			}
			target := int64(0)
			if L/8 > 0 {
				target = int64(h.t.Intn(int(L/8) + 1))
			}
			if posKnown && h.t.Intn(4) == 0 {
				// unit-confusion bias: a byte target whose bit position equals the current byte position
				target = pos / 8
			}
			got, err := irs.Seek(target-base, whence)
			h.log = append(h.log, fmt.Sprintf("%s: IOReadSeeker.Seek(%d,%d)=%d,%v", n.kind, target-base, whence, got, err))
			if err != nil {
				if !n.faulty() {
					h.violate("unexpected-error", n.kind+":ioreadseeker", "IOReadSeeker.Seek(%d,%d) over %s (%d bytes, at %d) failed: %v", target-base, whence, n.desc, nb, pos, err)
				}
				posKnown = false
				continue
			}
			if got != target {
				h.violate("wrong-seek-result", n.kind+":ioreadseeker", "IOReadSeeker.Seek(%d,%d) over %s (%d bytes, at %d) returned %d want %d", target-base, whence, n.desc, nb, pos, got, target)
				return
			}
			pos, posKnown = target, true
			continue
		}
		buf := make([]byte, bs)
		cnt, err := irs.Read(buf)
		h.log = append(h.log, fmt.Sprintf("%s: IOReadSeeker.Read(%d)@%d=%d,%v", n.kind, bs, pos, cnt, err))
		if err != nil && !isEOF(err) {
			if !n.faulty() {
				h.violate("unexpected-error", n.kind+":ioreadseeker", "IOReadSeeker.Read over %s at byte %d: %v", n.desc, pos, err)
			}
			posKnown = false
			continue
		}
		if int64(cnt) > nb-pos || cnt < 0 || cnt > bs {
			h.violate("bits-beyond-end", n.kind+":ioreadseeker", "IOReadSeeker.Read over %s (%d bytes) at byte %d returned %d bytes", n.desc, nb, pos, cnt)
			return
		}
		if string(buf[:cnt]) != string(padded[pos:pos+int64(cnt)]) {
			h.violate("wrong-bytes", n.kind+":ioreadseeker", "IOReadSeeker.Read over %s (len %d bits) at byte %d: got %x want %x", n.desc, L, pos, buf[:cnt], padded[pos:pos+int64(cnt)])
			return
		}
		if isEOF(err) && pos+int64(cnt) < nb {
			h.violate("premature-eof", n.kind+":ioreadseeker", "IOReadSeeker.Read over %s (%d bytes) at byte %d: EOF after %d bytes", n.desc, nb, pos, cnt)
			return
		}
		pos += int64(cnt)
	}
}

func trunc(b []byte) []byte {
	if len(b) > 24 {
		return b[:24]
	}
	return b
}

func bytesPrefix(full, p []byte) bool {
	return len(p) <= len(full) && string(full[:len(p)]) == string(p)
}

func readAllBuf(r io.Reader, bs int, limit int) ([]byte, error) {
	var out []byte
	buf := make([]byte, bs)
	zero := 0
	for len(out) <= limit {
		n, err := r.Read(buf)
		out = append(out, buf[:n]...)
		if err != nil {
			if isEOF(err) {
				return out, nil
			}
			return out, err
		}
		if n == 0 {
			zero++
			if zero > 100 {
				return out, errors.New("reader makes no progress")
			}
		}
	}
	return out, nil
}

// bufferPipe pushes bits of the node through an in-memory bitio.Buffer in pieces of
// tape-chosen sizes (1..130 bits in, 1..130 bits out, interleaved): what comes out
// must be what went in, at any alignment of the buffer's read and write cursors.
func (h *hioRun) bufferPipe(n *ioNode) {
	L := int64(len(n.bits))
	if L == 0 {
		return
	}
	start := int64(h.t.Intn(int(L)))
	total := L - start
	if total > 2000 {
		total = 2000
	}
	src := n.bits.Slice(start, start+total)
	var b bitio.Buffer
	var out model.Bits
	in := int64(0)
	sizes := []int64{1, 2, 3, 4, 5, 7, 8, 9, 15, 16, 17, 31, 32, 33, 56, 57, 60, 63, 64, 65, 71, 72, 127, 128, 129}
	for steps := 0; steps < 400 && int64(len(out)) < total; steps++ {
		if in < total && (h.t.Intn(2) == 0 || b.Len() == 0) {
			w := sizes[h.t.Intn(len(sizes))]
			if w > total-in {
				w = total - in
			}
			piece := src.Slice(in, in+w)
			if _, err := b.WriteBits(piece.Bytes(), w); err != nil {
				h.violate("unexpected-error", "buffer", "Buffer.WriteBits(%d bits): %v", w, err)
				return
			}
			in += w
			continue
		}
		r := sizes[h.t.Intn(len(sizes))]
		p := make([]byte, r/8+2)
		cnt, err := b.ReadBits(p, r)
		if err != nil && !isEOF(err) {
			h.violate("unexpected-error", "buffer", "Buffer.ReadBits(%d bits): %v", r, err)
			return
		}
		if cnt < 0 || cnt > r {
			h.violate("count-out-of-range", "buffer", "Buffer.ReadBits asked %d bits, got count %d", r, cnt)
			return
		}
		out = append(out, model.FromBytes(p, cnt)...)
	}
	h.log = append(h.log, fmt.Sprintf("%s: %d bits from %d through Buffer in pieces", n.kind, total, start))
	simrt.Probe(probeWriter)
	if int64(len(out)) > in {
		h.violate("bits-beyond-end", "buffer", "bitio.Buffer gave back %d bits after only %d were written", len(out), in)
		return
	}
	for i := range out {
		if out[i] != src[i] {
			h.violate("wrong-bits", "buffer", "bits written to a bitio.Buffer in pieces and read back in pieces differ at bit %d of %d (from %s at bit %d)", i, total, n.desc, start)
			return
		}
	}
}

type simSink struct {
	buf []byte
}

func (s *simSink) Write(p []byte) (int, error) {
	simrt.Yield(siteSinkWrite)
	s.buf = append(s.buf, p...)
	return len(p), nil
}

// copyOut copies the rest of a clone into a bit buffer or a bit writer.
func (h *hioRun) copyOut(n *ioNode) {
	ras, ok := n.r.(bitio.ReadAtSeeker)
	if !ok {
		return
	}
	cl, err := bitio.CloneReaderAtSeeker(ras)
	if err != nil {
		return
	}
	L := int64(len(n.bits))
	start := int64(0)
	if L > 0 {
		start = int64(h.t.Intn(int(L) + 1))
	}
	if _, err := cl.SeekBits(start, io.SeekStart); err != nil {
		if !n.faulty() {
			h.violate("unexpected-error", n.kind, "SeekBits(%d) on clone of %s failed: %v", start, n.desc, err)
		}
		return
	}
	want := n.bits.Slice(start, L)
	simrt.Probe(probeWriter)
	if h.t.Intn(2) == 0 {
		var b bitio.Buffer
		cnt, err := bitio.Copy(&b, cl)
		h.log = append(h.log, fmt.Sprintf("%s: Copy(Buffer) from %d = %d,%v", n.kind, start, cnt, err))
		if err != nil {
			if !n.faulty() {
				h.violate("unexpected-error", n.kind+":copy", "bitio.Copy from %s at bit %d: %v", n.desc, start, err)
			}
			return
		}
		bb, bn := b.Bits()
		if cnt != int64(len(want)) || bn != int64(len(want)) || !want.EqualPacked(0, bb, int64(len(want))) {
			h.violate("wrong-bits", n.kind+":copy", "bitio.Copy into Buffer from %s (len %d) at bit %d: copied %d (buffer %d) bits, want %d, or content differs", n.desc, L, start, cnt, bn, len(want))
		}
		return
	}
	sink := &simSink{}
	w := bitio.NewIOBitWriter(sink)
	var cnt int64
	if h.t.Intn(3) == 0 && len(want) > 0 {
		// one large write (crosses the writer's internal chunk for big inputs)
		p := want.Bytes()
		cnt, err = w.WriteBits(p, int64(len(want)))
	} else {
		cnt, err = bitio.Copy(w, cl)
	}
	if err == nil {
		err = w.Flush()
	}
	h.log = append(h.log, fmt.Sprintf("%s: write to IOBitWriter from %d = %d,%v", n.kind, start, cnt, err))
	if err != nil {
		if !n.faulty() {
			h.violate("unexpected-error", n.kind+":bitwriter", "writing %d bits from %s at bit %d to IOBitWriter: %v", len(want), n.desc, start, err)
		}
		return
	}
	wb := want.PadToByte().Bytes()
	if cnt != int64(len(want)) || string(sink.buf) != string(wb) {
		h.violate("wrong-bytes", n.kind+":bitwriter", "IOBitWriter after Flush: wrote %d bits from %s at bit %d, sink has %d bytes %x, want %d bytes %x", cnt, n.desc, start, len(sink.buf), trunc(sink.buf), len(wb), trunc(wb))
	}
}

func (*hio) Run(rc *core.RunCtx) *core.RunResult {
	res := core.NewResult()
	t := rc.T
	sim := simrt.New(t, -1, 2000000)
	defer sim.Close()
	h := &hioRun{t: t, res: res, cfgErr: rc.Config == "errors"}
	// created here so that both tasks inherit it through their creation (a real
	// canceller obtains the cancel function through synchronisation as well)
	h.ctx, h.cancel = context.WithCancel(context.Background())
	cancelled := false
	h.cancelled = func() bool { return hioGet(&cancelled) }
	nOps := 10 + t.Intn(60)
	cancelAfter := -1
	if h.cfgErr && t.Intn(3) == 0 {
		cancelAfter = t.Intn(400)
	}
	opsDone := 0
	sim.Spawn("client", false, func() {
		root := h.build(1 + t.Intn(3))
		h.nodes = append(h.nodes, root)
		h.log = append(h.log, "root="+root.desc)
		for i := 0; i < nOps && !h.violated; i++ {
			simrt.Yield(siteIOClient)
			n := h.nodes[t.Intn(len(h.nodes))]
			h.op(n)
			opsDone++
		}
	})
	if cancelAfter >= 0 {
		sim.Spawn("canceller", true, func() {
			for i := 0; i < cancelAfter; i++ {
				simrt.Yield(siteIOCancel)
			}
			if hioHasCtx(h) {
				hioSet(&cancelled)
				hioCancel(h)
			}
		})
	}
	end := sim.Run()
	for _, d := range h.disks {
		d.mergeCounts(res)
	}
	if h.nCancel > 0 {
		res.Faults["ctx_cancel"] += h.nCancel
	}
	st := sim.Stats()
	res.Fingerprint = st.Fingerprint ^ uint64(len(h.log))*0x9e3779b97f4a7c15
	for _, l := range h.log {
		for i := 0; i < len(l); i++ {
			res.Fingerprint = (res.Fingerprint ^ uint64(l[i])) * 1099511628211
		}
	}
	res.Steps, res.SimNanos, res.Switches, res.Pairs = st.Steps, st.SimNanos, st.Switches, sim.Pairs()
	res.Nontrivial = opsDone >= 3
	for i := 0; i < numHioProbes; i++ {
		if sim.Probes[i] > 0 {
			res.Probes[hioProbeNames[i]] += int(sim.Probes[i])
		}
	}
	nlog := len(h.log)
	if nlog > 12 {
		nlog = 12
	}
	res.Sample = map[string]any{"policy": st.Policy, "config": rc.Config, "first_ops": h.log[:nlog], "n_ops": opsDone, "end": st.End}
	h.cancel()
	switch end {
	case simrt.EndPanic:
		fn, class := core.PanicKey(sim.PanicVal, sim.PanicStack)
		if strings.HasPrefix(fn, "unknown") {
			res.Violate("HARNESS", "panic", "hio", sim.PanicVal+"\n"+sim.PanicStack)
		} else {
			res.Violate("C01", "panic", fn+":"+class, fmt.Sprintf("task %s panicked: %s\n  ops: %s\n%s", sim.PanicTask, sim.PanicVal, strings.Join(h.log, "; "), sim.PanicStack))
		}
		res.Trace = sim.Trace()
	case simrt.EndDeadlock:
		res.Violate("C01", "deadlock", strings.Join(sim.BlockedTasks(), ","), "a reader call blocked forever: "+strings.Join(sim.BlockedTasks(), ", ")+"\n  ops: "+strings.Join(h.log, "; "))
		res.Trace = sim.Trace()
	case simrt.EndBudget:
		res.Inconclusive = "step budget exhausted"
	}
	if len(res.Violations) > 0 && res.Trace == nil {
		tr := sim.Trace()
		if len(tr) > 400 {
			tr = tr[len(tr)-400:]
		}
		res.Trace = tr
	}
	return res
}

//go:norace
func hioHasCtx(h *hioRun) bool { return h.hasCtx }

//go:norace
func hioSetHasCtx(h *hioRun) { h.hasCtx = true }

//go:norace
func hioCancel(h *hioRun) {
	h.nCancel++
	h.cancel()
}

//go:norace
func hioGet(p *bool) bool { return *p }

//go:norace
func hioSet(p *bool) { *p = true }
