//go:build race

package simrt

const raceBuild = true
