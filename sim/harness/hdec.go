package harness

import (
	"bytes"
	"context"
	"errors"
	"fmt"
	"io"
	"sort"
	"strings"

	"github.com/wader/fq/internal/simrt"
	"github.com/wader/fq/pkg/bitio"
	"github.com/wader/fq/pkg/decode"
	"github.com/wader/fq/pkg/interp"
	"github.com/wader/fq/pkg/scalar"
	"github.com/wader/fq/zzverif/sim/core"
	"github.com/wader/fq/zzverif/sim/corpus"
	"github.com/wader/fq/zzverif/sim/model"
)

// H-DEC: decode under storage faults (DESIGN §3 C03/C04/C06). Real: pkg/decode,
// all of format/*, pkg/bitio, pkg/ranges, the registry. Stub: the disk under
// bitio.NewIOBitReadSeeker(disk) handed to decode.Decode, so every field read
// of every decoder is a disk call and a fault point. Faults: abort at the k-th
// disk call (transient / persistent EIO, early EOF, cancel), truncation of the
// stored bytes, at-rest bit-rot, byte overwrite with a boundary value, zeroed /
// duplicated / dropped block. Oracles on whatever tree comes back, complete or
// partial: no escaping panic (C06), structural soundness (C03), coverage of the
// buffer by leaves and gaps with gap content = stored bits (C04).

func init() { core.Register(&hdec{}) }

type hdec struct{}

func (*hdec) Name() string { return "hdec" }

const siteDecDisk = 60300

func init() { simrt.RegisterSite(siteDecDisk, "hdec:disk") }

// decDisk is the byte source under the root bit reader.
type decDisk struct {
	data     []byte
	pos      int64
	calls    int
	planKind int // 0 none, 1 transient EIO, 2 persistent EIO, 3 EOF here, 4 cancel
	planAt   int
	cancel   context.CancelFunc
	fired    bool
	persist  bool
	eof      int64
	readLog  [][2]int64 // offset, length of the first reads (fault-free pass)
	logReads bool
	short    int  // > 0: a read returns at most 1 + (call number mod short) bytes
	yieldAll bool // a scheduling point at every call (twin decodes), not every 64th
}

// decShort is picked up by the next decodeOnce (hapi)
var decShort int

func (d *decDisk) Read(p []byte) (int, error) {
	i := d.calls
	d.calls++
	if d.calls&63 == 0 || d.yieldAll {
		simrt.Yield(siteDecDisk)
	}
	if d.persist {
		return 0, errEIO
	}
	if d.planKind != 0 && i == d.planAt {
		d.fired = true
		switch d.planKind {
		case 1:
			return 0, errEIO
		case 2:
			d.persist = true
			return 0, errEIO
		case 3:
			d.eof = d.pos
		case 4:
			d.cancel()
		}
	}
	end := int64(len(d.data))
	if d.eof >= 0 && d.eof < end {
		end = d.eof
	}
	if d.pos >= end {
		return 0, io.EOF
	}
	n := int64(len(p))
	if n > end-d.pos {
		n = end - d.pos
	}
	if d.short > 0 && n > int64(1+i%d.short) {
		n = int64(1 + i%d.short)
	}
	if d.logReads && len(d.readLog) < 4096 {
		d.readLog = append(d.readLog, [2]int64{d.pos, n})
	}
	copy(p, d.data[d.pos:d.pos+n])
	d.pos += n
	return int(n), nil
}

func (d *decDisk) Seek(off int64, whence int) (int64, error) {
	i := d.calls
	d.calls++
	if d.persist {
		return 0, errEIO
	}
	if d.planKind != 0 && i == d.planAt {
		d.fired = true
		switch d.planKind {
		case 1:
			return 0, errEIO
		case 2:
			d.persist = true
			return 0, errEIO
		case 4:
			d.cancel()
		}
	}
	var abs int64
	switch whence {
	case io.SeekStart:
		abs = off
	case io.SeekCurrent:
		abs = d.pos + off
	case io.SeekEnd:
		abs = int64(len(d.data)) + off
	}
	if abs < 0 {
		return 0, errors.New("negative seek")
	}
	d.pos = abs
	return abs, nil
}

type decPair struct {
	s     corpus.Sample
	group string
	force bool
}

// fault-free facts per (sample, group, force), computed once per worker
type decBase struct {
	calls   int
	ok      bool // the fault-free decode returned a tree
	lenLike []int64
	lenW    map[int64]int64 // width of the read at that offset
	hang    bool
}

var decBases = map[string]*decBase{}

var boundaryBytes = []byte{0x00, 0x7f, 0x80, 0xff, 0x01, 0xfe}

var decGroups []string

func decGroupNames() []string {
	if decGroups != nil {
		return decGroups
	}
	for name := range interp.DefaultRegistry.Groups() {
		decGroups = append(decGroups, name)
	}
	sort.Strings(decGroups)
	return decGroups
}

type decOutcome struct {
	v      *decode.Value
	err    error
	panicV string
	stack  string
	calls  int
	fired  bool
}

// decodeOnce runs decode.Decode over data with the given fault plan, inside a
// one-task simulation so that a decode that spins without I/O trips the watchdog
// (resource-inconclusive), never a verdict.
func decodeOnce(t *simrt.Tape, data []byte, group *decode.Group, force bool, planKind, planAt int, logReads bool) (*decOutcome, *decDisk) {
	ctx, cancel := context.WithCancel(context.Background())
	defer cancel()
	disk := &decDisk{data: data, planKind: planKind, planAt: planAt, cancel: cancel, eof: -1, logReads: logReads, short: decShort}
	out := &decOutcome{}
	sim := simrt.New(t, simrt.PolSequential, 1<<30)
	sim.WatchdogMs = 3000
	sim.Spawn("decode", false, func() {
		br := bitio.NewIOBitReadSeeker(disk)
		v, _, err := decode.Decode(ctx, br, group, decode.Options{IsRoot: true, FillGaps: true, Force: force})
		out.v, out.err = v, err
	})
	end := sim.Run()
	if end == simrt.EndPanic {
		out.panicV, out.stack = sim.PanicVal, sim.PanicStack
	}
	sim.Close()
	out.calls, out.fired = disk.calls, disk.fired
	return out, disk
}

func (*hdec) Run(rc *core.RunCtx) *core.RunResult {
	res := core.NewResult()
	t := rc.T
	maxSize := int64(16 * 1024)
	if rc.Tier == "thorough" && t.Intn(8) == 0 {
		maxSize = 256 * 1024
	}
	samples := corpus.MaxSize(maxSize)
	if len(samples) == 0 {
		res.Violate("HARNESS", "no-corpus", "hdec", "no samples harvested")
		return res
	}
	// systematic walk: consecutive run indices visit the pairs in turn (rotated by the seed),
	// each round with another fault family and boundary value; everything else is drawn
	nS := len(samples)
	si := int((uint64(rc.Idx) + (rc.Seed%1000003)*7919) % uint64(nS))
	round := rc.Idx / nS
	_ = t.Intn(nS) // keeps the tape shape of earlier versions
	s := samples[si]
	p := decPair{s: s, group: s.Format}
	switch t.Intn(16) {
	case 0:
		p.group = "probe"
	case 1, 2, 3, 4:
		// a foreign format
		g := decGroupNames()
		p.group = g[t.Intn(len(g))]
	}
	if p.group == "" {
		p.group = "probe"
	}
	p.force = t.Intn(4) == 0
	group, err := interp.DefaultRegistry.Group(p.group)
	if err != nil {
		res.Inconclusive = ""
		return res
	}
	orig := corpus.Data(s)
	key := fmt.Sprintf("%s|%s|%v", s.Rel, p.group, p.force)
	what := fmt.Sprintf("%s as %s force=%v", s.Rel, p.group, p.force)

	base, ok := decBases[key]
	if !ok || rc.Replay {
		out, disk := decodeOnce(t, orig, group, p.force, 0, 0, true)
		base = &decBase{calls: out.calls, ok: out.v != nil}
		// offsets read with a small width look like length or count fields
		for _, r := range disk.readLog {
			if r[1] >= 1 && r[1] <= 8 && len(base.lenLike) < 1024 {
				base.lenLike = append(base.lenLike, r[0])
				if base.lenW == nil {
					base.lenW = map[int64]int64{}
				}
				base.lenW[r[0]] = r[1]
			}
		}
		decBases[key] = base
		res.Probes["fault_free_decodes"]++
		// the fault-free decode is checked too (baseline configuration)
		checkOutcome(res, out, orig, what+" (no fault)", false, condOf(p, s, false), p.force)
		if len(res.Violations) > 0 {
			res.Nontrivial = true
			res.Sample = map[string]any{"case": what, "fault": "none"}
			return res
		}
	}

	// the faults of this run: one family, swept over this (sample, format) pair
	type decFault struct {
		descr    string
		kind     string
		data     []byte
		planKind int
		planAt   int
	}
	var faults []decFault
	mut := func() []byte { return append([]byte(nil), orig...) }
	pickOff := func() int {
		if len(orig) == 0 {
			return 0
		}
		switch t.Intn(4) {
		case 0:
			return t.Intn(min(len(orig), 64))
		case 1:
			if len(base.lenLike) > 0 {
				o := int(base.lenLike[t.Intn(len(base.lenLike))]) + t.Intn(4)
				if o < len(orig) {
					return o
				}
			}
		}
		return t.Intn(len(orig))
	}
	planNames := []string{"", "transient EIO", "persistent EIO", "early EOF", "cancel"}
	planKinds := []string{"", "abort_eio_transient", "abort_eio_persistent", "abort_eof", "abort_cancel"}
	family := []int{0, 0, 1, 1, 2, 3, 4, 5, 6, 7, 8, 9}[t.Intn(12)] // saturation 4/12, truncation 2/12, aborts 2/12, single faults 4/12
	satByte := boundaryBytes[t.Intn(len(boundaryBytes))]
	if rc.Tier == "thorough" {
		// thorough: the families and boundary values rotate with the round, so that a pair
		// meets all of them instead of drawing the same one twice
		family = []int{0, 2, 4, 6, 1, 7, 3, 8, 5, 9}[round%10]
		satByte = boundaryBytes[(round/10+round)%len(boundaryBytes)]
	}
	switch {
	case family < 2 && len(orig) > 0:
		// length-field saturation: every offset the fault-free decode read with a small
		// width (and the first bytes), overwritten with one boundary value
		b := satByte
		// how much of a field is overwritten: the whole field as it was read, its last byte
		// (the low byte of a big-endian count), or one byte at the field's start
		shape := t.Intn(3)
		seen := map[int]bool{}
		var offs []int
		if len(orig) <= 600 {
			// small file: every byte offset
			for o := 0; o < len(orig); o++ {
				seen[o] = true
				offs = append(offs, o)
			}
		}
		for _, o := range base.lenLike {
			if int(o) < len(orig) && !seen[int(o)] {
				seen[int(o)] = true
				offs = append(offs, int(o))
			}
		}
		for o := 0; o < min(len(orig), 24); o++ {
			if !seen[o] {
				seen[o] = true
				offs = append(offs, o)
			}
		}
		if len(offs) > 300 {
			// a window of the offsets: the whole list does not fit one run
			w := t.Intn(len(offs) - 299)
			offs = offs[w : w+300]
		}
		for _, o := range offs {
			d := mut()
			w := int(base.lenW[int64(o)])
			if w < 1 {
				w = 1
			}
			lo, hi := o, o+1
			switch shape {
			case 0:
				hi = o + w
			case 1:
				lo, hi = o+w-1, o+w
			}
			for k := lo; k < hi && k < len(d); k++ {
				d[k] = b
			}
			faults = append(faults, decFault{descr: fmt.Sprintf("bytes %d..%d overwritten with 0x%02x", lo, hi-1, b), kind: "byte_overwrite", data: d})
		}
	case family < 4 && len(orig) > 0:
		// every truncation length (small files) or a stride of them
		step := 1
		if len(orig) > 384 {
			step = len(orig)/256 + 1
		}
		for n := t.Intn(step); n < len(orig); n += step {
			faults = append(faults, decFault{descr: fmt.Sprintf("truncated to %d of %d bytes", n, len(orig)), kind: "truncation", data: orig[:n]})
		}
	case family < 6 && base.calls > 0:
		// abort at every (or every step-th) disk call, one abort kind
		pk := 1 + t.Intn(4)
		step := 1
		if base.calls > 200 {
			step = base.calls/150 + 1
		}
		for k := t.Intn(step); k < base.calls; k += step {
			faults = append(faults, decFault{descr: fmt.Sprintf("%s at disk call %d of %d", planNames[pk], k, base.calls), kind: planKinds[pk], data: orig, planKind: pk, planAt: k})
		}
	default:
		// a handful of independent random faults
		for n := 0; n < 12; n++ {
			var f decFault
			switch t.Intn(12) {
			case 0, 1:
				f.planKind = 1 + t.Intn(4)
				if base.calls > 0 {
					f.planAt = t.Intn(base.calls)
				}
				f.data = orig
				f.kind = planKinds[f.planKind]
				f.descr = fmt.Sprintf("%s at disk call %d of %d", planNames[f.planKind], f.planAt, base.calls)
			case 2, 3:
				n := 0
				if len(orig) > 0 {
					n = t.Intn(len(orig) + 1)
				}
				f.data, f.kind = orig[:n], "truncation"
				f.descr = fmt.Sprintf("truncated to %d of %d bytes", n, len(orig))
			case 4, 5, 6:
				f.data, f.kind = mut(), "bitrot"
				if len(f.data) > 0 {
					k := 1 + t.Intn(3)
					var where []string
					for i := 0; i < k; i++ {
						o := pickOff()
						b := uint(t.Intn(8))
						f.data[o] ^= 1 << b
						where = append(where, fmt.Sprintf("%d.%d", o, b))
					}
					f.descr = "bit-rot at " + strings.Join(where, ",")
				}
			case 7, 8:
				f.data, f.kind = mut(), "byte_overwrite"
				if len(f.data) > 0 {
					o := pickOff()
					b := boundaryBytes[t.Intn(len(boundaryBytes))]
					w := 1
					if t.Intn(4) == 0 {
						w = 1 + t.Intn(4)
					}
					for i := 0; i < w && o+i < len(f.data); i++ {
						f.data[o+i] = b
					}
					f.descr = fmt.Sprintf("bytes %d..%d overwritten with 0x%02x", o, o+w-1, b)
				}
			case 9:
				// stale bytes in front of or behind the file (written at the wrong offset, not truncated on rewrite)
				junk := make([]byte, 1+t.Intn(24))
				for i := range junk {
					junk[i] = byte(t.Intn(256))
				}
				if t.Intn(2) == 0 {
					f.data, f.kind = append(append([]byte(nil), junk...), orig...), "junk_prefix"
					f.descr = fmt.Sprintf("%d stale bytes in front of the file", len(junk))
				} else {
					f.data, f.kind = append(mut(), junk...), "junk_suffix"
					f.descr = fmt.Sprintf("%d stale bytes behind the file", len(junk))
				}
			default:
				f.data = mut()
				if len(f.data) > 1 {
					bs := []int{1, 2, 4, 8, 16, 512}[t.Intn(6)]
					o := (t.Intn(len(f.data)) / bs) * bs
					e := min(o+bs, len(f.data))
					switch t.Intn(3) {
					case 0:
						for i := o; i < e; i++ {
							f.data[i] = 0
						}
						f.descr, f.kind = fmt.Sprintf("lost write: block %d..%d zeroed", o, e), "block_zeroed"
					case 1:
						f.data = append(append(append([]byte(nil), f.data[:e]...), f.data[o:e]...), f.data[e:]...)
						f.descr, f.kind = fmt.Sprintf("misdirected write: block %d..%d duplicated", o, e), "block_duplicated"
					default:
						f.data = append(append([]byte(nil), f.data[:o]...), f.data[e:]...)
						f.descr, f.kind = fmt.Sprintf("block %d..%d dropped", o, e), "block_dropped"
					}
				}
			}
			if f.kind != "" {
				faults = append(faults, f)
			}
		}
	}
	if len(faults) > 300 {
		faults = faults[:300]
	}
	if w, ok := nestWraps[p.group]; ok && len(orig) > 0 {
		// the file stored as the only element of n enclosing containers: a legal
		// document of the same format whose value tree is n levels deeper
		n := []int{40, 130, 200, 300}[t.Intn(4)]
		d := append([]byte(nil), bytes.Repeat([]byte(w[0]), n)...)
		d = append(d, orig...)
		d = append(d, bytes.Repeat([]byte(w[1]), n)...)
		faults = append(faults, decFault{descr: fmt.Sprintf("wrapped in %d enclosing containers", n), kind: "nested_wrap", data: d})
	}
	res.Nontrivial = len(faults) > 0
	res.Fingerprint = fnv64(0, []byte(key))
	for _, f := range faults {
		res.Faults[f.kind]++
		res.Extra["faulted_decodes"]++
		out, _ := decodeOnce(t, f.data, group, p.force, f.planKind, f.planAt, false)
		res.Steps += out.calls
		res.Fingerprint = fnv64(fnv64(res.Fingerprint, []byte(f.descr)), f.data[:min(len(f.data), 32)])
		if f.planKind != 0 && out.fired {
			res.Probes["abort_landed"]++
		}
		if out.v != nil && out.err != nil {
			res.Probes["partial_tree_with_error"]++
		}
		if out.v != nil && p.force && out.err == nil && f.planKind == 0 {
			res.Probes["forced_decode_returned_tree"]++
		}
		if f.planKind == 4 && errors.Is(out.err, context.Canceled) {
			res.Probes["cancel_observed"]++
		}
		checkOutcome(res, out, f.data, what+", "+f.descr, f.planKind == 1 || f.planKind == 2 || f.planKind == 3, condOf(p, s, true), p.force)
		if len(res.Violations) > 0 {
			res.Sample = map[string]any{"case": what, "fault": f.descr, "disk_calls": out.calls, "tree": out.v != nil, "error": errStr(out.err)}
			return res
		}
	}
	res.Sample = map[string]any{"case": what, "fault_family": family, "faults": len(faults)}
	return res
}

// formats with a self-delimiting one-element container: opening and closing bytes
var nestWraps = map[string][2]string{
	"msgpack":  {"\x91", ""},
	"cbor":     {"\x81", ""},
	"bencode":  {"l", "e"},
	"asn1_ber": {"\x30\x80", "\x00\x00"},
}

func condOf(p decPair, s corpus.Sample, faulted bool) string {
	nat := s.Format
	if nat == "" {
		nat = "probe"
	}
	if !faulted && !p.force && p.group == nat {
		return "natural"
	}
	return "stressed"
}

func errStr(err error) string {
	if err == nil {
		return ""
	}
	return firstN(err.Error(), 160)
}

func isCompoundV(v *decode.Value) bool {
	_, ok := v.V.(*decode.Compound)
	return ok
}

func isSynthetic(v *decode.Value) bool {
	if s, ok := v.V.(scalar.Scalarable); ok {
		return s.ScalarFlags().IsSynthetic()
	}
	return false
}

func isGap(v *decode.Value) bool {
	if s, ok := v.V.(scalar.Scalarable); ok {
		return s.ScalarFlags().IsGap()
	}
	return false
}

func valuePath(v *decode.Value) string {
	var parts []string
	for p := v; p != nil; p = p.Parent {
		n := p.Name
		if p.Parent != nil {
			if c, ok := p.Parent.V.(*decode.Compound); ok && c.IsArray {
				n = fmt.Sprintf("[%d]", p.Index)
			}
		}
		parts = append(parts, n)
	}
	for i, j := 0, len(parts)-1; i < j; i, j = i+1, j-1 {
		parts[i], parts[j] = parts[j], parts[i]
	}
	return strings.Join(parts, ".")
}

func formatOf(v *decode.Value) string {
	for p := v; p != nil; p = p.Parent {
		if p.Format != nil {
			return p.Format.Name
		}
	}
	return "?"
}

// checkOutcome applies the C06, C03 and C04 oracles to one decode outcome.
// cond says under which conditions a tree was produced: "natural" (the format the
// sample is meant for, no force, no fault) or "stressed" (foreign format, probe
// of a corrupted input, force, any fault). Known findings are keyed with it so
// that a gap of some decoder on garbage does not hide a regression on clean input.
func checkOutcome(res *core.RunResult, out *decOutcome, data []byte, what string, ioFailed bool, cond string, forced bool) {
	if out.panicV != "" {
		fn, class := core.PanicKey(out.panicV, out.stack)
		if strings.HasPrefix(fn, "unknown") || strings.Contains(fn, "zzverif") {
			res.Violate("HARNESS", "panic", "hdec", out.panicV+"\n"+out.stack)
			return
		}
		res.Violate("C06", "panic", fn+":"+class, fmt.Sprintf("%s: unrecovered %s\n%s", what, out.panicV, firstN(out.stack, 3000)))
		return
	}
	if out.v == nil {
		if out.err == nil {
			res.Violate("C06", "no-tree-no-error", "decode", what+": decode returned neither a tree nor an error")
		}
		return
	}
	root := out.v
	// ---- C03 -------------------------------------------------------------
	var at *decode.Value
	c03 := func(key, f string, a ...any) {
		fv := root
		if at != nil {
			fv = at
		}
		res.Violate("C03", key, formatOf(fv)+":"+cond, what+": "+fmt.Sprintf(f, a...))
	}
	readerLen := map[bitio.ReaderAtSeeker]int64{}
	lenOf := func(r bitio.ReaderAtSeeker) (int64, bool) {
		if r == nil {
			return 0, false
		}
		if l, ok := readerLen[r]; ok {
			return l, l >= 0
		}
		cl, err := bitio.CloneReaderAtSeeker(r)
		if err != nil {
			readerLen[r] = -1
			return 0, false
		}
		l, err := cl.SeekBits(0, io.SeekEnd)
		if err != nil {
			readerLen[r] = -1
			return 0, false
		}
		readerLen[r] = l
		return l, true
	}
	if root.Range.Start != 0 {
		c03("root-range-start", "the root's range starts at %d, the decode range starts at 0", root.Range.Start)
		return
	}
	nvals := 0
	bad := false
	linksOnly := false // the C03 violation is about names, numbering, links or a compound's own range: the leaf ranges can still be judged (C04)
	_ = hdecWalk(root, false, func(v *decode.Value, _ *decode.Value, _ int, _ int) error {
		nvals++
		if nvals > 200000 {
			return decode.ErrWalkStop
		}
		at = v
		if v.Range.Start < 0 || v.Range.Len < 0 {
			c03("negative-range", "%s has range start %d len %d", valuePath(v), v.Range.Start, v.Range.Len)
			bad = true
			return decode.ErrWalkStop
		}
		if !isSynthetic(v) {
			r := v.Range
			if v.IsRoot {
				r = v.InnerRange()
			}
			if l, ok := lenOf(v.RootReader); ok && !ioFailed && r.Start+r.Len > l {
				// root cause classes that do not depend on the format: (A) a decoder seeked
				// past the end and left a zero-length value there, which stretches the ranges
				// of its ancestors; (B) a forced decode kept going past the end
				leafOutside := false
				_ = hdecWalk(v, true, func(w *decode.Value, _ *decode.Value, _ int, _ int) error {
					if _, isC := w.V.(*decode.Compound); !isC && w.Range.Len > 0 && !isSynthetic(w) && (w != v || !v.IsRoot) {
						if wl, ok := lenOf(w.RootReader); ok && w.RootReader == v.RootReader && w.Range.Start+w.Range.Len > wl {
							leafOutside = true
							return decode.ErrWalkStop
						}
					}
					return nil
				})
				switch {
				case !leafOutside && !isCompoundV(v) && v.Range.Len == 0:
					res.Violate("C03", "range-outside-buffer", "zero-length-field-past-end:"+cond, what+fmt.Sprintf(": field %s has the empty range %d..%d outside its buffer of %d bits", valuePath(v), r.Start, r.Start+r.Len, l))
				case !leafOutside:
					res.Violate("C03", "range-outside-buffer", "zero-length-value-past-end:"+cond, what+fmt.Sprintf(": %s has range %d..%d outside its buffer of %d bits (only zero-length values lie past the end)", valuePath(v), r.Start, r.Start+r.Len, l))
				case forced:
					res.Violate("C03", "range-outside-buffer", "forced-decode-past-end:"+cond, what+fmt.Sprintf(": %s has range %d..%d outside its buffer of %d bits", valuePath(v), r.Start, r.Start+r.Len, l))
				default:
					c03("range-outside-buffer", "%s has range %d..%d outside its buffer of %d bits", valuePath(v), r.Start, r.Start+r.Len, l)
				}
				bad = true
				return decode.ErrWalkStop
			}
		}
		c, isCompound := v.V.(*decode.Compound)
		if !isCompound {
			return nil
		}
		cr := v.Range
		if v.IsRoot {
			cr = v.InnerRange()
		}
		names := map[string]bool{}
		prevStart := int64(-1)
		for i, ch := range c.Children {
			if ch.Parent != v {
				c03("parent-link", "%s: child %d (%s) has another parent", valuePath(v), i, ch.Name)
				bad, linksOnly = true, true
				return decode.ErrWalkStop
			}
			if c.IsArray {
				if ch.Index != i {
					c03("array-index", "%s: element at position %d is numbered %d", valuePath(v), i, ch.Index)
					bad, linksOnly = true, true
					return decode.ErrWalkStop
				}
			} else {
				if names[ch.Name] {
					c03("duplicate-name", "%s: two fields are named %q", valuePath(v), ch.Name)
					bad, linksOnly = true, true
					return decode.ErrWalkStop
				}
				names[ch.Name] = true
				if c.ByName[ch.Name] != ch {
					c03("byname-link", "%s: lookup of field %q does not give the field", valuePath(v), ch.Name)
					bad, linksOnly = true, true
					return decode.ErrWalkStop
				}
				if ch.Range.Start < prevStart {
					c03("field-order", "%s: field %s starts at %d before its predecessor at %d", valuePath(v), ch.Name, ch.Range.Start, prevStart)
					bad, linksOnly = true, true
					return decode.ErrWalkStop
				}
				prevStart = ch.Range.Start
			}
			if ch.IsRoot || isSynthetic(ch) {
				continue
			}
			if ch.Range.Start < cr.Start || ch.Range.Start+ch.Range.Len > cr.Start+cr.Len {
				c03("child-outside-parent", "%s (%d..%d) does not span its child %s (%d..%d)", valuePath(v), cr.Start, cr.Start+cr.Len, ch.Name, ch.Range.Start, ch.Range.Start+ch.Range.Len)
				bad, linksOnly = true, true
				return decode.ErrWalkStop
			}
		}
		return nil
	})
	res.Extra["values_walked"] += nvals
	if bad && !linksOnly {
		return
	}
	// ---- C04 -------------------------------------------------------------
	c04 := func(oracle, key, f string, a ...any) {
		res.Violate("C04", oracle, key, what+": "+fmt.Sprintf(f, a...))
	}
	if ioFailed {
		return
	}
	fileBits := model.FromBytes(data, int64(len(data))*8)
	// (1) coverage of every buffer that was decoded with gap filling: the top
	// level and nested roots made by a format decode (they carry their format)
	var roots []*decode.Value
	// (2) every compound that received gap fields is one gap-filling scope
	var scopes []*decode.Value
	_ = hdecWalk(root, false, func(v *decode.Value, _ *decode.Value, _ int, _ int) error {
		c, isC := v.V.(*decode.Compound)
		if !isC {
			return nil
		}
		if v == root || (v.IsRoot && v.Format != nil) {
			roots = append(roots, v)
		}
		for _, ch := range c.Children {
			if isGap(ch) {
				scopes = append(scopes, v)
				break
			}
		}
		return nil
	})
	leavesOf := func(b *decode.Value, fn func(v *decode.Value)) {
		_ = hdecWalk(b, true, func(v *decode.Value, _ *decode.Value, _ int, _ int) error {
			if _, isC := v.V.(*decode.Compound); isC {
				return nil
			}
			if v.IsRoot && v != b {
				return nil
			}
			fn(v)
			return nil
		})
	}
	for ri, b := range roots {
		if ri > 40 {
			break
		}
		total, ok := lenOf(b.RootReader)
		if !ok || total > 1<<24 {
			continue
		}
		if b == root && int64(len(data))*8 < total {
			total = int64(len(data)) * 8
		}
		cover := make([]bool, total)
		var leafRanges [][2]int64
		leavesOf(b, func(v *decode.Value) {
			s, e := v.Range.Start, v.Range.Start+v.Range.Len
			if s < 0 || e > total {
				return // C03's business
			}
			leafRanges = append(leafRanges, [2]int64{s, e})
			for i := s; i < e; i++ {
				cover[i] = true
			}
		})
		for i := int64(0); i < total; i++ {
			if !cover[i] {
				j := i
				for j < total && !cover[j] {
					j++
				}
				key := formatOf(b) + ":" + cond
				// known finding: the gap computation lets a run of fields take the one bit
				// behind it when a field (also an empty one) starts right after that bit
				sw := slackSwallowed(leafRanges, total)
				explained := true
				for k := i; k < j; k++ {
					explained = explained && sw[k]
				}
				if explained {
					key = "1-bit hole between leaf ranges"
				}
				c04("bit-not-covered", key, "buffer %s: bits %d..%d of %d lie in no field and no gap", valuePath(b), i, j, total)
				return
			}
		}
		res.Extra["buffers_covered"]++
	}
	for si, p := range scopes {
		if si > 200 {
			break
		}
		c := p.V.(*decode.Compound)
		var gaps []*decode.Value
		for _, ch := range c.Children {
			if isGap(ch) {
				gaps = append(gaps, ch)
			}
		}
		// leaves decoded in this scope (same buffer, below p) must not be overlapped by its gaps
		type rng struct{ s, e int64 }
		var fields []rng
		leavesOf(p, func(v *decode.Value) {
			if !isGap(v) && v.Range.Len > 0 {
				fields = append(fields, rng{v.Range.Start, v.Range.Start + v.Range.Len})
			}
		})
		inTop := p.BufferRoot() == root
		for _, g := range gaps {
			gs, ge := g.Range.Start, g.Range.Start+g.Range.Len
			for _, f := range fields {
				if gs < f.e && f.s < ge {
					c04("gap-overlaps-field", formatOf(p)+":"+cond, "gap %s (%d..%d) overlaps a decoded field (%d..%d) of the same decode", valuePath(g), gs, ge, f.s, f.e)
					return
				}
			}
			if !inTop {
				continue
			}
			bb, ok := g.V.(*scalar.BitBuf)
			if !ok || bb.Actual == nil {
				continue
			}
			n := g.Range.Len
			if n > 1<<20 || ge > int64(len(fileBits)) {
				continue
			}
			cl, err := bitio.CloneReaderAtSeeker(bb.Actual)
			if err != nil {
				continue
			}
			if al, ok := lenOf(bb.Actual); ok && al != n {
				c04("gap-content", formatOf(p)+":"+cond, "gap %s (%d..%d): its content is %d bits long, its range %d", valuePath(g), gs, ge, al, n)
				return
			}
			buf := make([]byte, n/8+2)
			if _, err := bitio.ReadFull(cl, buf, n); err != nil && n > 0 {
				c04("gap-unreadable", formatOf(p)+":"+cond, "gap %s (%d..%d): reading its bits failed: %v", valuePath(g), gs, ge, err)
				return
			}
			if n > 0 && !fileBits.EqualPacked(gs, buf, n) {
				c04("gap-content", formatOf(p)+":"+cond, "gap %s (%d..%d) does not hold the input bits of its range", valuePath(g), gs, ge)
				return
			}
			res.Extra["gaps_checked"]++
		}
	}
}

// hdecWalk walks a value tree pre-order without fq's own walker (what the
// oracle sees must not depend on the code under test): every value below v,
// or, with oneRoot, the values of v's own buffer (nested roots are skipped).
// Returning decode.ErrWalkStop from fn ends the walk.
func hdecWalk(v *decode.Value, oneRoot bool, fn func(v *decode.Value, rootV *decode.Value, depth int, rootDepth int) error) error {
	var rec func(w *decode.Value, depth int) error
	rec = func(w *decode.Value, depth int) error {
		if oneRoot && w != v && w.IsRoot {
			return nil
		}
		if err := fn(w, nil, depth, 0); err != nil {
			return err
		}
		if c, ok := w.V.(*decode.Compound); ok {
			for _, ch := range c.Children {
				if err := rec(ch, depth+1); err != nil {
					return err
				}
			}
		}
		return nil
	}
	return rec(v, 0)
}

// slackSwallowed mirrors the known finding in ranges.Gaps (ranges are merged when
// the next one starts at most ONE bit after the end of the run so far): the bits
// that are uncovered but taken for covered.
func slackSwallowed(leaves [][2]int64, total int64) []bool {
	ls := append([][2]int64(nil), leaves...)
	sort.SliceStable(ls, func(i, j int) bool { return ls[i][0] < ls[j][0] })
	sw := make([]bool, total)
	for i := 0; i < len(ls); {
		if ls[i][0] == ls[i][1] {
			i++
			continue
		}
		e := ls[i][1]
		j := i + 1
		for ; j < len(ls) && ls[j][0] <= e+1; j++ {
			if ls[j][0] == e+1 && e >= 0 && e < total {
				sw[e] = true
			}
			if ls[j][1] > e {
				e = ls[j][1]
			}
			if ls[j][0] > e {
				e = ls[j][0]
			}
		}
		i = j
	}
	return sw
}
