package main

// Stage is one harness configuration explored for a property.
type Stage struct {
	Harness     string
	Config      string
	Race        bool
	Quick       int     // runs in the quick tier
	Thorough    int     // runs in the thorough tier
	QuickSec    float64 // wall-clock cap
	ThoroughSec float64
	MemGB       int // ulimit -v for workers (0 = none)
	Workers     int // cap on workers (0 = tier default)
}

// Plan is everything simctl needs to know about one property's check.
type Plan struct {
	Stages       []Stage
	Rule         string
	Real         []string
	Stub         []string
	Assumptions  []string
	ExpectProbes []string
}

var commonAssumptions = []string{
	"sampling, not proof: a clean batch is evidence over the seeds explored",
	"goroutines are real threads parked on raw pipe reads and released one at a time; the choice of who runs, every fault and every generated operation come from one tape derived from VERIF_SEED",
	"interleavings are at statement granularity in internal/ctxstack, internal/ctxreadseeker, internal/iox and at I/O-call granularity elsewhere",
	"the instrumented build (go/ast rewrite + -overlay) behaves like the working tree apart from the inserted scheduling points, simulated channel operations, clock and knobs",
}

var plans = map[string]Plan{
	"C05": {
		Stages: []Stage{
			{Harness: "hbits", Config: "benign", Quick: 1200, Thorough: 60000, QuickSec: 70, ThoroughSec: 1200, MemGB: 8},
			{Harness: "hbits", Config: "errors", Quick: 1200, Thorough: 40000, QuickSec: 40, ThoroughSec: 600, MemGB: 8},
		},
		Rule: "one run = the whole of fq on one corpus sample (<= 24 KiB, the format and -o options its .fqtest command line names) with a tape-chosen bits_format, read-ahead size in {1,7,64,4096,512Ki} and progress precision in {1,16,1024}, a scheduler policy, and a simulated disk giving short reads, zero reads and latency (config errors: also transient/persistent EIO); the program lists for up to 120 or 1500 values path, range, buffer root and the rendering of tobytes and tobits under that bits_format, or writes tobytes of the root / of a byte aligned value raw; oracle (harness side, from the stored bytes): tobytes = bits[start:stop] left padded to a byte, tobits the same bits right padded when rendered as bytes, each of hex/base64/md5/snippet/byte_array/truncate/string recomputed with the Go standard library, raw root = the stored file; under error faults equality or a reported error, never a crash; values inside nested buffers and synthetic values are counted and skipped; distinct = distinct (sample, format, bits_format, schedule) fingerprint; non-trivial = at least one value compared",
		Real: []string{"the whole of fq through interp.New/Main/Stop", "the real open stack ctxreadseeker -> progressreadseeker -> aheadreadseeker -> IOBitReadSeeker with knobs", "all format decoders the samples need"},
		Stub: []string{"operating system: file system and disk with fault injection (simos), terminal", "scheduler"},
		Assumptions: append([]string{
			"content of values inside nested buffers (decompressed, reassembled) is not compared here; C15 checks nested content independently",
			"the size prefix of the snippet rendering is not compared, only the encoded bits",
			"runs of U+FFFD are collapsed before comparing string renderings of invalid UTF-8",
		}, commonAssumptions...),
		ExpectProbes: []string{"values_checked", "unaligned_values", "nested_buffer_values_skipped", "disk_short_read", "disk_zero_read", "disk_eio_transient", "disk_eio_persistent", "value_failed_after_fault", "runs_with_error_fault"},
	},
	"C17": {
		Stages: []Stage{
			{Harness: "hcli", Config: "default", Quick: 2400, Thorough: 80000, QuickSec: 75, ThoroughSec: 1500, MemGB: 8},
		},
		Rule: "one run = a tape-drawn command line (flags from the documented set in any order, combined shorts, --flag=value, --, sometimes an unknown flag, a missing value, a bad --argjson, a missing --raw-file/-f file) with 0..4 inputs, each decodable JSON, undecodable under the probe, missing, a directory, unreadable (EACCES) or failing with EIO at open, and a program that succeeds, raises on some inputs or does not compile; the whole of fq runs in-process on the simulated OS (half the runs with short/zero reads and latency on the disk); oracles: (1) exit-status model 2 > 3 > 4 > 5 > 0 over the inputs actually consumed, (2) independence: stdout, stderr and status of the n-input run equal the concatenation/combination of the n single-input runs (slurp: equals the slurp of the good inputs), (3) jq modes (-n -r -j -c -s --raw-output0 --arg --argjson --raw-file --) against the gojq library evaluating the same program on the same JSON; distinct = distinct (argv, input contents); every case is non-trivial",
		Real: []string{"the whole of fq through interp.New/Main/Stop (args.jq, options.jq, init.jq, interp.jq, decode, display)", "internal/ctxstack, ctxreadseeker, aheadreadseeker, progressreadseeker under the file stack"},
		Stub: []string{"operating system: file system and disk (simos), terminal, arguments, environment", "scheduler", "reference engine for oracle 3: the gojq library"},
		Assumptions: append([]string{
			"raw input (-R) is excluded from the independence oracle: like jq it reads all files as one stream of lines",
			"an undecodable input under a single forced format (-d json) yields a tree with the error attached and status 0, so it counts as decodable",
			"without inputs fq reads standard input; such cases are generated with -n only",
			"EIO at open is not assigned a class by the statement: only a non-zero status and unaffected other inputs are required",
		}, commonAssumptions...),
		ExpectProbes: []string{"arg_error_cases", "compile_error_cases", "multi_input_cases", "independence_checked", "slurp_independence_checked", "jq_modes_checked", "input_missing", "input_directory", "input_eacces", "input_eio", "input_undecodable", "disk_short_read"},
	},
	"C01": {
		Stages: []Stage{
			{Harness: "hio", Config: "benign", Quick: 30000, Thorough: 3000000, QuickSec: 70, ThoroughSec: 1200},
			{Harness: "hio", Config: "errors", Quick: 15000, Thorough: 1500000, QuickSec: 40, ThoroughSec: 600},
			// system tier: the stack fq's open really builds, read lazily by tobytes/tobits
			{Harness: "hbits", Config: "benign", Quick: 400, Thorough: 20000, QuickSec: 40, ThoroughSec: 500, MemGB: 8},
		},
		Rule: "one run = a tape-drawn reader composition (in-memory bit reader, zero reader, file stack IOBitReadSeeker(ahead?(progress?(ctx?(simulated disk)))) bare or clamped by bitiox.Range, section, multi, clone, byte round trip IOBitReadSeeker(IOReadSeeker(x)), limit) and 10..70 operations on it and its clones (ReadBits, ReadBitsAt, SeekBits start/current/end, ReadFull/ReadAtFull, clone, IOReader/IOReadSeeker byte views with 1..512 byte buffers, bitio.Copy into Buffer and IOBitWriter+Flush) while the simulated disk returns short reads, zero reads, latency and (config errors) transient/persistent EIO and the context is cancelled at a tape-chosen step; oracle: a reference bit-string model per node - count in range, no bit beyond the logical end, returned bits equal the model, EOF only at the logical end, seek results equal the model, byte views and writers equal the model zero padded; under error-class faults an operation may fail but never return wrong bits, and no call blocks forever; distinct = distinct (schedule, operation log) fingerprint; non-trivial = at least three operations executed",
		Real: []string{"pkg/bitio (all readers, adapters, writer)", "internal/bitiox", "internal/aheadreadseeker", "internal/progressreadseeker", "internal/ctxreadseeker (statement-level yields, simulated channel rendezvous)"},
		Stub: []string{"disk (io.ReadSeeker with fault injection)", "sink (io.Writer)", "scheduler"},
		Assumptions: append([]string{
			"read-at offsets are >= 0; a seek to a negative target may answer anything and is followed by an absolute seek",
			"a byte view (IOReadSeeker) over a source whose length is not a whole number of bytes is only read forward and seeked absolutely to whole bytes: where its end lies for seeking is not defined by the statement",
			"under error-class faults content is still compared for whatever an operation returns; only the failure of the operation itself is accepted",
		}, commonAssumptions...),
		ExpectProbes: []string{"ctx_layer", "progress_fn", "multi_child", "section_clamp", "big_read", "unaligned_readat", "eof_with_bits", "seek_end", "seek_current", "clone", "byte_view", "bit_writer", "resync_after_fault", "read_full", "disk_short_read", "disk_zero_read", "disk_eio_transient", "disk_eio_persistent", "ctx_cancel"},
	},
	"C20": {
		Stages: []Stage{
			{Harness: "hctx", Config: "default", Quick: 40000, Thorough: 4000000, QuickSec: 60, ThoroughSec: 900},
			{Harness: "hctx", Config: "default", Race: true, Quick: 2000, Thorough: 100000, QuickSec: 40, ThoroughSec: 600},
			// cancellation while a read or seek of the ctx reader is in flight (race mode)
			{Harness: "hio", Config: "errors", Race: true, Quick: 1500, Thorough: 60000, QuickSec: 40, ThoroughSec: 400},
		},
		Rule: "one run = a tape-drawn list of 3..12 push/finish/observe/write/stop operations by an evaluator task against 0..3 interrupts by an interrupter task, scheduled at statement level (policy drawn per run) over the real ctxstack; oracle: history linearizable (porcupine) against a stack-of-contexts model, no panic in any task, no deadlock, no race report in race mode; distinct = distinct schedule fingerprint (FNV of the event log); non-trivial = at least two recorded operations",
		Real: []string{"internal/ctxstack (statement-level yields)", "internal/iox.CtxWriter", "context"},
		Stub: []string{"trigger source (1-buffered interrupt channel as in pkg/cli)", "scheduler", "io.Discard sink"},
		Assumptions: append([]string{
			"the evaluator never pushes or finishes after Stop (fq calls Stop last); an abandoned entry popped by an outer finish is never finished itself (DESIGN §4)",
		}, commonAssumptions...),
		ExpectProbes: []string{"interrupt", "interrupt_dropped", "porcupine_ok"},
	},
}
